package rules

import (
	"fmt"
	"go/ast"
	"go/token"
	"go/types"

	"golang.org/x/tools/go/ssa"
	"golang.org/x/tools/go/types/typeutil"

	"verif/sa/internal/an"
)

func init() {
	register(&Property{
		ID:        "C05",
		Technique: "typestate over the reader loop and the writer sink, non-nil provenance of termination causes, restricted result-use check on the transport-facing API, who-may-access, guard dominance for calls through optional func-typed fields; tested-then-dropped error (contradiction) check and interprocedural lock-pairing check over the packages the property is anchored in; error-filter (error→error) return analysis",
		Explanation: "Structural conditions of 'a transport failure is contained': " +
			"(R1) every read error and every packet-handling error in the reader loop terminates the manager and ends the loop; the loop announces its exit by a first-registered defer; " +
			"(R4) the writer drops its buffer after every sink write and returns the sink's error; " +
			"(R5) no error result of the transport-facing API is discarded in library code; " +
			"(R6) every cause passed to Manager.terminate is provably non-nil (the constructors return it as the error); " +
			"(R7) the semaphore acquisition tests the term signal before blocking; " +
			"(R8) Reader.read returns (n>0,nil) or (0,err), retries a bounded number of times, and the saved read error is touched only there; " +
			"(R9) a failed transport write terminates the manager: the io.Writer handed to the frame writer reaches Manager.terminate on its error edge; " +
			"plus the shared mechanisms: terminate closes transport and stream buffer once (C04.R4), the watcher cancels the active stream on termination (C04.R3), semaphore/finished-token pairing (C02.R6), packet-buffer wake-ups (C01.R4), no partial packet surfaced (C01.R5), every blocking point has a term case (C04.R6), finish ordering (C03.R4/R5).",
		NotDecided: "behaviour for every fault position k of every workload; correctness of the prefix delivered before the fault; absence of panics (C13's part).",
		Assumptions: []string{
			"Transport.Close unblocks a pending Read/Write (transport contract)",
		},
		Rules: append([]Rule{
			{ID: "C05.E2", Doc: "error filters: a function that is handed an error and returns one never returns a constant nil unless it has seen the argument to be nil (drpcstream, drpcmanager, drpcconn, drpcserver, drpcwire, drpcerr)", Run: func(c *an.Ctx) {
				errPassRule(c, "drpcwire", "drpcstream", "drpcmanager", "drpcconn", "drpcserver", "drpcerr")
			}},
			{ID: "C05.R1", Doc: "manageReader: read errors and HandlePacket errors reach Manager.terminate and leave the loop; read signal set by the first defer", Run: c05r1},
			{ID: "C05.R4", Doc: "Writer.WriteFrame/Flush: buffer reset after every sink write on all paths; the sink's error is what is returned", Run: c05r4},
			{ID: "C05.R5", Doc: "no error result of the transport-facing API (Writer, Reader, Stream, Manager constructors) is discarded in library code", Run: c05r5},
			{ID: "C05.R6", Doc: "every argument of Manager.terminate is provably non-nil", Run: c05r6},
			{ID: "C05.R7", Doc: "acquireSemaphore tests the term signal before it can block", Run: c05r7},
			{ID: "C05.R8", Doc: "Reader.read never returns (n>0, err!=nil); bounded retries; Reader.rerr is accessed only by Reader.read", Run: c05r8},
			{ID: "C05.R9", Doc: "the io.Writer handed to drpcwire.NewWriter terminates the manager when the transport write fails", Run: c05r9},
			{ID: "C05.R10", Doc: "optional callbacks: a func-typed struct field (Options.Log and the like) is called only where a non-nil test of that same field dominates the call; a failed connection is reported to a logger that may not be configured, and calling the nil func panics the serving goroutine", Run: c05r10},
			{ID: "C05.S1", Alias: "C04.R4"},
			{ID: "C05.S2", Alias: "C04.R3"},
			{ID: "C05.S3", Alias: "C02.R6"},
			{ID: "C05.S4", Alias: "C01.R4"},
			{ID: "C05.S5", Alias: "C01.R5"},
			{ID: "C05.S6", Alias: "C04.R6"},
			{ID: "C05.S7", Alias: "C03.R4"},
			{ID: "C05.S8", Alias: "C03.R5"},
			{ID: "C05.S13", Doc: "the connection reader never parks for a stream that will not be created (only an invoke it forwarded makes it wait): a parked reader stops reading, so a transport failure or the peer's close is never noticed (= C06.R3)", Alias: "C06.R3"},
			{ID: "C05.S12", Doc: "containing a transport failure takes no lock cycle: the manager's terminate path and the writer never wait for each other (a failed write that cancels the stream itself while the writer's mutex is held deadlocks the connection)", Alias: "C04.W2"},
			{ID: "C05.S9", Doc: "the reader is released (pdone) for every packet NewServerStream received, also when creating the stream fails after termination: otherwise the reader never exits and Close hangs", Alias: "C06.R5"},
		}, disciplineRules("C05", "drpcwire", "drpcstream", "drpcmanager", "drpcconn", "drpcserver")...),
	})
}

func c05r1(c *an.Ctx) {
	a := A(c)
	mr := c.Fn("drpcmanager", "(*Manager).manageReader")
	readPkt := a.obj("drpcwire", "(*Reader).ReadPacketUsing")
	handle := a.obj("drpcstream", "(*Stream).HandlePacket")
	terminate := a.obj("drpcmanager", "(*Manager).terminate")
	readSig := a.field("drpcmanager", "Manager", "sigs.read")
	sigSet := a.obj("drpcsignal", "(*Signal).Set")
	errOf := func(v ssa.Value) string { // which call's error is v?
		v = an.Resolve(v)
		switch x := v.(type) {
		case *ssa.Extract:
			if call, ok := x.Tuple.(*ssa.Call); ok && an.IsCallTo(call.Common(), readPkt) && x.Index == 1 {
				return "read"
			}
		case *ssa.Call:
			if an.IsCallTo(x.Common(), handle) {
				return "handle"
			}
		}
		return ""
	}
	flow := &an.Flow{Fn: mr, Inline: an.InlineSamePackage(mr), Init: []string{""},
		Step: func(st string, in ssa.Instruction) []string {
			if call, ok := in.(*ssa.Call); ok && an.IsCallTo(call.Common(), terminate) {
				return []string{addTag(st, "term")}
			}
			return nil
		},
		Branch: func(st string, br *ssa.If, idx int) (string, bool) {
			x, trueNonNil, ok := nilTestOf(br.Cond)
			if !ok {
				return st, true
			}
			k := errOf(x)
			if k == "" {
				return st, true
			}
			if (idx == 0) == trueNonNil {
				return addTag(st, "err:"+k), true
			}
			return st, true
		},
	}
	res := flow.Run()
	seenRead, seenHandle := false, false
	bad := map[string]ssa.Instruction{}
	an.Instrs(mr, func(in ssa.Instruction) {
		if !res.Reachable(in.Block()) {
			return
		}
		isLoopAgain := false
		if call, ok := in.(*ssa.Call); ok {
			if an.IsCallTo(call.Common(), readPkt) {
				isLoopAgain = true
				seenRead = true
			}
			if an.IsCallTo(call.Common(), handle) {
				seenHandle = true
			}
		}
		_, isRet := in.(*ssa.Return)
		if !isLoopAgain && !isRet {
			return
		}
		for _, st := range res.Before(in) {
			for _, k := range []string{"read", "handle"} {
				if !hasTag(st, "err:"+k) {
					continue
				}
				if isLoopAgain {
					bad[k+":continues"] = in
				}
				if isRet && !hasTag(st, "term") {
					bad[k+":noterm"] = in
				}
			}
		}
	})
	c.Check(seenRead, "manageReader | reads packets with ReadPacketUsing", c.P.Pos(mr.Pos()), "", "the reader loop no longer calls ReadPacketUsing")
	c.Check(seenHandle, "manageReader | delivers packets with HandlePacket", c.P.Pos(mr.Pos()), "", "the reader loop no longer calls HandlePacket")
	for _, k := range []string{"read", "handle"} {
		what := map[string]string{"read": "a transport read error", "handle": "an error from Stream.HandlePacket"}[k]
		in1, b1 := bad[k+":continues"]
		in2, b2 := bad[k+":noterm"]
		pos := c.P.Pos(mr.Pos())
		if b1 {
			pos = c.At(in1)
		} else if b2 {
			pos = c.At(in2)
		}
		c.Check(!b1, "manageReader | "+k+" error ends the loop", pos, "", "after "+what+" the reader keeps reading")
		c.Check(!b2, "manageReader | "+k+" error terminates the manager", pos, "", what+" ends the reader without Manager.terminate: pending and later calls on the connection hang and Closed() stays open")
	}
	// defer sigs.read.Set registered before anything that can return
	first := firstEffect(mr)
	okDefer := false
	if d, ok := first.(*ssa.Defer); ok && an.IsCallTo(d.Common(), sigSet) && recvField(d.Common()) == readSig.Origin() {
		okDefer = true
	}
	c.Check(okDefer, "manageReader | defer sigs.read.Set registered first", c.P.Pos(mr.Pos()), "", "the reader can exit without announcing it: Manager.Close waits forever")
}

// firstEffect returns the first call/defer/go/return instruction of fn.
func firstEffect(fn *ssa.Function) ssa.Instruction {
	for _, in := range fn.Blocks[0].Instrs {
		switch in.(type) {
		case ssa.CallInstruction, *ssa.Return, *ssa.If, *ssa.Jump:
			return in
		}
	}
	return nil
}

func c05r4(c *an.Ctx) {
	a := A(c)
	buf := a.field("drpcwire", "Writer", "buf")
	w := a.field("drpcwire", "Writer", "w")
	writerT := must(c.P.Named("drpcwire", "Writer"))
	n := 0
	for _, fn := range must(c.P.SourceFuncs("drpcwire")) {
		if fn.Signature.Recv() == nil || !types.Identical(deref(fn.Signature.Recv().Type()), writerT) {
			continue
		}
		var writes []*ssa.Call
		an.Instrs(fn, func(in ssa.Instruction) {
			if call, ok := in.(*ssa.Call); ok && call.Common().IsInvoke() && call.Common().Method.Name() == "Write" && isLoadOfField(call.Common().Value, w) {
				writes = append(writes, call)
			}
		})
		if len(writes) == 0 {
			continue
		}
		n += len(writes)
		c.Analysed(fn)
		flow := &an.Flow{Fn: fn, Inline: an.InlineSamePackage(fn), Init: []string{"clean"}, Step: func(st string, in ssa.Instruction) []string {
			switch x := in.(type) {
			case *ssa.Call:
				for _, wr := range writes {
					if x == wr {
						return []string{"written"}
					}
				}
			case *ssa.Store:
				if fv := an.PathOf(x.Addr).Last(); fv != nil && fv.Origin() == buf.Origin() {
					if sl, ok := x.Val.(*ssa.Slice); ok {
						if hi, ok := an.ConstInt(sl.High); ok && hi == 0 {
							return []string{"clean"}
						}
					}
				}
			}
			return nil
		}}
		res := flow.Run()
		ok := true
		var where ssa.Instruction
		for _, ret := range an.Returns(fn) {
			if !res.Reachable(ret.Block()) {
				continue
			}
			for _, st := range res.Before(ret) {
				if st == "written" {
					ok, where = false, ret
				}
			}
		}
		pos := c.P.Pos(fn.Pos())
		if where != nil {
			pos = c.At(where)
		}
		c.Check(ok, an.ShortFunc(fn)+" | buffer reset after the sink write on every path", pos, "", "frames already handed to the transport stay in the buffer and are written again (duplicated frames / frames following a failed write)")
		// the write's error is returned
		for _, wr := range writes {
			var errv ssa.Value
			for _, ref := range *wr.Referrers() {
				if ex, ok := ref.(*ssa.Extract); ok && ex.Index == 1 {
					errv = ex
				}
			}
			okErr := false
			if errv != nil {
				for _, ret := range an.Returns(fn) {
					if !an.CanReach(wr, ret) {
						continue
					}
					for _, v := range returnedValues(ret, 0) {
						if v == errv || carriesError(v, errv, 0) {
							okErr = true
						}
					}
				}
			}
			c.Check(okErr, an.ShortFunc(fn)+" | the sink's write error is returned", c.At(wr), "", "a transport write error is swallowed by the writer: the sender believes the frame was written")
		}
	}
	c.Floor("sink writes in Writer methods", 1, n)
}

func c05r5(c *an.Ctx) {
	a := A(c)
	// the transport-facing API whose error results must not be dropped
	api := map[*types.Func]bool{}
	for _, x := range [][2]string{
		{"drpcwire", "(*Writer).WriteFrame"}, {"drpcwire", "(*Writer).Flush"}, {"drpcwire", "(*Writer).WritePacket"},
		{"drpcwire", "(*Reader).ReadPacket"}, {"drpcwire", "(*Reader).ReadPacketUsing"}, {"drpcwire", "(*Reader).read"},
		{"drpcstream", "(*Stream).HandlePacket"}, {"drpcstream", "(*Stream).RawWrite"}, {"drpcstream", "(*Stream).RawFlush"},
		{"drpcstream", "(*Stream).MsgSend"}, {"drpcstream", "(*Stream).MsgRecv"}, {"drpcstream", "(*Stream).RawRecv"},
		{"drpcstream", "(*Stream).sendPacketLocked"}, {"drpcstream", "(*Stream).rawWriteLocked"}, {"drpcstream", "(*Stream).rawFlushLocked"},
		{"drpcstream", "(*Stream).checkRecvFlush"},
		{"drpcmanager", "(*Manager).acquireSemaphore"}, {"drpcmanager", "(*Manager).waitForPreviousStream"},
		{"drpcmanager", "(*Manager).newStream"}, {"drpcmanager", "(*Manager).NewClientStream"}, {"drpcmanager", "(*Manager).NewServerStream"},
	} {
		if x[1] == "(*Manager).waitForPreviousStream" || x[1] == "(*Stream).checkRecvFlush" || x[1] == "(*Stream).rawWriteLocked" || x[1] == "(*Stream).rawFlushLocked" || x[1] == "(*Stream).sendPacketLocked" {
			// single-caller helpers: part of the API while they exist
			if o := a.objOpt(x[0], x[1]); o != nil {
				api[o] = true
			}
			continue
		}
		api[a.obj(x[0], x[1])] = true
	}
	nCalls := 0
	for _, path := range c.P.ModulePackages() {
		if !libraryPkg(c.P, path) {
			continue
		}
		pk := c.P.ByPath[path]
		for _, f := range pk.Syntax {
			if isTestFileName(c.P.Fset.Position(f.Pos()).Filename) {
				continue
			}
			check := func(call *ast.CallExpr, how string) {
				fn, _ := typeutil.Callee(pk.TypesInfo, call).(*types.Func)
				if fn == nil || !api[fn.Origin()] {
					return
				}
				c.Bad(fmt.Sprintf("%s | result of %s discarded (%s)", path[len(c.P.ModPath)+1:], fn.Name(), how), c.P.Pos(call.Pos()), "an error from the transport-facing API is dropped: a failure would go unnoticed and the caller continues on a broken connection")
			}
			ast.Inspect(f, func(n ast.Node) bool {
				switch x := n.(type) {
				case *ast.CallExpr:
					if fn, _ := typeutil.Callee(pk.TypesInfo, x).(*types.Func); fn != nil && api[fn.Origin()] {
						nCalls++
					}
				case *ast.ExprStmt:
					if call, ok := x.X.(*ast.CallExpr); ok {
						check(call, "expression statement")
					}
				case *ast.DeferStmt:
					check(x.Call, "defer")
				case *ast.GoStmt:
					check(x.Call, "go")
				case *ast.AssignStmt:
					if len(x.Rhs) == 1 {
						if call, ok := x.Rhs[0].(*ast.CallExpr); ok {
							last := x.Lhs[len(x.Lhs)-1]
							if id, ok := last.(*ast.Ident); ok && id.Name == "_" {
								check(call, "assigned to _")
							}
						}
					}
				}
				return true
			})
		}
	}
	c.Check(nCalls >= 1, "library | transport-facing API call sites scanned", "-", fmt.Sprintf("%d call sites, none discards its error", nCalls), "no call sites found")
	c.Floor("transport-facing API call sites", 1, nCalls)
}

func isTestFileName(s string) bool {
	return len(s) > 8 && s[len(s)-8:] == "_test.go"
}

func c05r6(c *an.Ctx) {
	a := A(c)
	terminate := a.obj("drpcmanager", "(*Manager).terminate")
	n := 0
	for _, fn := range must(c.P.SourceFuncs("drpcmanager")) {
		for _, cs := range an.CallsTo(fn, false, terminate) {
			n++
			c.Analysed(fn)
			arg := an.Arg(cs.Common(), 0)
			ok := provablyNonNil(arg, cs.Instr.Block(), 0) || ctxErrAfterDone(an.Resolve(arg), cs.Instr)
			c.Check(ok, fmt.Sprintf("%s | terminate(%s) cause is non-nil", an.ShortFunc(fn), an.Render(arg, 3)), c.At(cs.Instr), "", "Manager.terminate may be called with a nil cause: acquireSemaphore/newStream/NewServerStream return that value as the error, so a caller would get (nil stream, nil error) or proceed without the semaphore")
		}
	}
	c.Floor("Manager.terminate call sites", 1, n)
}

func c05r7(c *an.Ctx) {
	a := A(c)
	af := c.Fn("drpcmanager", "(*Manager).acquireSemaphore")
	termF := a.field("drpcmanager", "Manager", "sigs.term")
	sigGet := a.obj("drpcsignal", "(*Signal).Get")
	sigIsSet := a.obj("drpcsignal", "(*Signal).IsSet")
	n := 0
	// path-sensitive: the select is reached only on paths that have seen the term signal unset (wherever that test is
	// written: in place, in a helper, behind a returned error)
	isTermTest := func(v ssa.Value) (found bool, setWhenTrue bool) {
		switch x := v.(type) {
		case *ssa.Extract:
			if call, ok := x.Tuple.(*ssa.Call); ok && an.IsCallTo(call.Common(), sigGet) && recvField(call.Common()) == termF.Origin() && x.Index == 1 {
				return true, true
			}
		case *ssa.Call:
			if an.IsCallTo(x.Common(), sigIsSet) && recvField(x.Common()) == termF.Origin() {
				return true, true
			}
		}
		return false, false
	}
	learn := func(st string, v ssa.Value, val bool) (string, bool) {
		if ok, _ := isTermTest(v); ok && !val {
			return addTag(st, "T"), true
		}
		return st, true
	}
	flow := &an.Flow{Fn: af, Inline: an.InlineSamePackage(af), Init: []string{""},
		Branch: func(st string, br *ssa.If, idx int) (string, bool) {
			cond, neg := an.StripNot(br.Cond)
			return learn(st, cond, (idx == 0) != neg)
		},
		OnFact: learn,
	}
	res := flow.Run()
	if res.Blowup {
		c.Undecided("acquireSemaphore: state space too large")
		return
	}
	an.Instrs(af, func(in ssa.Instruction) {
		sel, ok := in.(*ssa.Select)
		if !ok || !sel.Blocking || !res.Reachable(in.Block()) {
			return
		}
		// only the select that can take the semaphore matters
		takes := false
		for _, stt := range sel.States {
			if stt.Dir == types.SendOnly {
				takes = true
			}
		}
		if !takes {
			return
		}
		n++
		tested := true
		for _, st := range res.Before(in) {
			if !hasTag(st, "T") {
				tested = false
			}
		}
		c.Check(tested, "acquireSemaphore | term tested before the blocking select", c.At(in), "", "on a terminated manager the select may pick the semaphore case (it is free) and a stream is created on a dead connection instead of returning the cause")
	})
	c.Floor("blocking select in acquireSemaphore", 1, n)
}

func c05r8(c *an.Ctx) {
	a := A(c)
	rd := c.Fn("drpcwire", "(*Reader).read")
	rerr := a.field("drpcwire", "Reader", "rerr")
	n := 0
	for _, ret := range an.Returns(rd) {
		n++
		ok := true
		for _, nv := range returnedValues(ret, 0) {
			for _, ev := range returnedValues(ret, 1) {
				nZero := false
				if k, isC := an.ConstInt(nv); isC && k == 0 {
					nZero = true
				}
				eNil := ev == nil || an.IsNilConst(ev)
				if !nZero && !eNil {
					ok = false
				}
			}
		}
		c.Check(ok, "(*Reader).read | returns (n, nil) or (0, err)", c.At(ret), "", "read can return data together with an error: the caller treats it as a pure error and drops the bytes (or processes them twice)")
	}
	c.Floor("returns of Reader.read", 1, n)
	// the data return is guarded by n > 0
	// bounded retry loop
	bound, okLoop := constLoopBound(rd)
	c.Check(okLoop, fmt.Sprintf("(*Reader).read | retry loop has a constant bound (%d)", bound), c.P.Pos(rd.Pos()), "", "read can spin forever on a transport that returns (0, nil)")
	// rerr accessed only in read
	nAcc := 0
	for _, fn := range must(c.P.SourceFuncs("drpcwire")) {
		an.Instrs(fn, func(in ssa.Instruction) {
			fa, ok := in.(*ssa.FieldAddr)
			if !ok {
				return
			}
			if fv := an.PathOf(fa).Last(); fv == nil || fv.Origin() != rerr.Origin() {
				return
			}
			if isFreshObject(an.PathOf(fa).Root) {
				return
			}
			nAcc++
			c.Check(fn == rd, fmt.Sprintf("%s | access Reader.rerr", an.ShortFunc(fn)), c.At(in), "", "the error saved from a read that also returned data is touched outside Reader.read: it can surface before the data it arrived with (packets dropped depending on how the transport attaches errors to reads)")
		})
	}
	c.Floor("accesses of Reader.rerr", 1, nAcc)
	// whatever else read() consults to decide that a saved error is due (a state word beside the error) is private
	// to read() as well: written anywhere else, the deferral can be forgotten or invented
	readerT := must(c.P.Named("drpcwire", "Reader"))
	flags := map[*types.Var]bool{}
	an.Instrs(rd, func(in ssa.Instruction) {
		br, ok := in.(*ssa.If)
		if !ok {
			return
		}
		// the test decides a way out that hands back the saved error
		decides := false
		for _, ret := range an.Returns(rd) {
			for _, v := range returnedValues(ret, 1) {
				if v != nil && isLoadOfField(v, rerr) && (br.Block().Dominates(ret.Block()) || br.Block() == ret.Block()) && ret.Block() != br.Block() {
					for _, sc := range br.Block().Succs {
						if sc == ret.Block() || sc.Dominates(ret.Block()) {
							decides = true
						}
					}
				}
			}
		}
		if !decides {
			return
		}
		var scan func(v ssa.Value, depth int)
		scan = func(v ssa.Value, depth int) {
			if depth > 4 {
				return
			}
			switch x := v.(type) {
			case *ssa.BinOp:
				scan(x.X, depth+1)
				scan(x.Y, depth+1)
			case *ssa.UnOp:
				if fa, isFA := x.X.(*ssa.FieldAddr); isFA {
					if fv := an.PathOf(fa).Last(); fv != nil {
						if pt, isP := fa.X.Type().Underlying().(*types.Pointer); isP && types.Identical(pt.Elem(), readerT) {
							flags[fv.Origin()] = true
						}
					}
				}
				scan(x.X, depth+1)
			case *ssa.Convert:
				scan(x.X, depth+1)
			}
		}
		scan(br.Cond, 0)
	})
	delete(flags, rerr.Origin())
	for f := range flags {
		for _, fn := range must(c.P.SourceFuncs("drpcwire")) {
			if fn == rd {
				continue
			}
			for _, st := range fieldStores(fn, f) {
				if isFreshObject(an.PathOf(st.Addr).Root) {
					continue
				}
				c.Bad(fmt.Sprintf("%s | writes Reader.%s", an.ShortFunc(fn), f.Name()), c.At(st),
					"Reader.read decides on this field whether a saved read error is due, and it is written outside Reader.read: the error that arrived together with data can be lost (or reported before the data)")
			}
		}
	}
}

// constLoopBound finds a loop `for i := c0; i < K; i++` in fn.
func constLoopBound(fn *ssa.Function) (int64, bool) {
	var bound int64
	found := false
	an.Instrs(fn, func(in ssa.Instruction) {
		br, ok := in.(*ssa.If)
		if !ok {
			return
		}
		bin, ok := br.Cond.(*ssa.BinOp)
		if !ok {
			return
		}
		// counting down from a constant: `for n := K; n > 0; n--`
		if phi, isPhi := bin.X.(*ssa.Phi); isPhi && (bin.Op == token.GTR || bin.Op == token.GEQ) {
			if lo, isK := an.ConstInt(bin.Y); isK {
				var init int64
				okInit, okStep := false, false
				for _, e := range phi.Edges {
					if k0, isC := an.ConstInt(e); isC {
						init, okInit = k0, true
					}
					if b, isB := e.(*ssa.BinOp); isB && b.Op == token.SUB && b.X == ssa.Value(phi) {
						if s, isC := an.ConstInt(b.Y); isC && s > 0 {
							okStep = true
						}
					}
				}
				if okInit && okStep {
					bound, found = init-lo, true
					return
				}
			}
		}
		if bin.Op != token.LSS && bin.Op != token.LEQ {
			return
		}
		phi, ok := bin.X.(*ssa.Phi)
		if !ok {
			return
		}
		k, ok := an.ConstInt(bin.Y)
		if !ok {
			return
		}
		// phi = [const, phi + const]
		okInit, okStep := false, false
		for _, e := range phi.Edges {
			if _, isC := an.ConstInt(e); isC {
				okInit = true
			}
			if b, isB := e.(*ssa.BinOp); isB && b.Op == token.ADD && b.X == ssa.Value(phi) {
				if s, isC := an.ConstInt(b.Y); isC && s > 0 {
					okStep = true
				}
			}
		}
		if okInit && okStep {
			bound, found = k, true
		}
	})
	return bound, found
}

func c05r9(c *an.Ctx) {
	a := A(c)
	nw := a.obj("drpcwire", "NewWriter")
	terminate := a.obj("drpcmanager", "(*Manager).terminate")
	ctor := c.Fn("drpcmanager", "NewWithOptions")
	n := 0
	for _, cs := range an.CallsTo(ctor, false, nw) {
		n++
		sink := cs.Common().Args[0]
		mi, ok := sink.(*ssa.MakeInterface)
		var named *types.Named
		if ok {
			named, _ = deref(mi.X.Type()).(*types.Named)
		}
		if named == nil || named.Obj().Pkg() == nil || !c.P.InModule(named.Obj().Pkg().Path()) {
			c.Bad("drpcmanager.NewWithOptions | frame writer's sink terminates the manager on a write error", c.At(cs.Instr),
				"the transport itself ("+an.R(sink)+") is handed to the frame writer: a failed (possibly partial) write is only returned to the sender; nothing terminates the manager, so a pending receive hangs, Closed() stays open and further frames can follow a torn frame")
			continue
		}
		var wm *ssa.Function
		for _, sel := range []types.Type{mi.X.Type(), types.NewPointer(named)} {
			ms := c.P.SSA.MethodSets.MethodSet(sel)
			if s := ms.Lookup(named.Obj().Pkg(), "Write"); s != nil {
				wm = c.P.SSA.MethodValue(s)
			}
		}
		if wm == nil || len(wm.Blocks) == 0 {
			c.Bad("drpcmanager.NewWithOptions | frame writer's sink terminates the manager on a write error", c.At(cs.Instr), "cannot resolve the Write method of "+named.Obj().Name())
			continue
		}
		if wm.Synthetic != "" {
			if inner := firstStaticCallee(wm); inner != nil {
				wm = inner
			}
		}
		c.Analysed(wm)
		// find the transport write and its error edge
		okTerm := false
		var tw *ssa.Call
		an.Instrs(wm, func(in ssa.Instruction) {
			if call, ok := in.(*ssa.Call); ok && call.Common().IsInvoke() && call.Common().Method.Name() == "Write" {
				tw = call
			}
		})
		if tw != nil {
			var errv ssa.Value
			for _, ref := range *tw.Referrers() {
				if ex, ok := ref.(*ssa.Extract); ok && ex.Index == 1 {
					errv = ex
				}
			}
			flow := &an.Flow{Fn: wm, Inline: an.InlineSamePackage(wm), Init: []string{""},
				Step: func(st string, in ssa.Instruction) []string {
					if call, ok := in.(*ssa.Call); ok && an.IsCallTo(call.Common(), terminate) {
						return []string{addTag(st, "term")}
					}
					return nil
				},
				Branch: func(st string, br *ssa.If, idx int) (string, bool) {
					if x, trueNonNil, ok := nilTestOf(br.Cond); ok && (an.Resolve(x) == errv || carriesError(x, errv, 0)) {
						exact := an.Unwrap(x) == errv || an.Resolve(x) == errv
						if (idx == 0) == trueNonNil {
							if exact && hasTag(st, "ok") {
								return st, false // the write error itself was already seen nil on this path
							}
							return addTag(st, "err"), true
						}
						if hasTag(st, "err") {
							return st, false // whatever carries a non-nil write error is not nil
						}
						return addTag(st, "ok"), true
					}
					return st, true
				},
			}
			res := flow.Run()
			okTerm = errv != nil
			sawErr := false
			for _, ret := range an.Returns(wm) {
				if !res.Reachable(ret.Block()) {
					continue
				}
				for _, st := range res.Before(ret) {
					if hasTag(st, "err") {
						sawErr = true
						if !hasTag(st, "term") {
							okTerm = false
						}
					}
					if !hasTag(st, "err") && !hasTag(st, "ok") {
						okTerm = false // a path that never looked at the error
					}
				}
			}
			if !sawErr {
				okTerm = false
			}
		}
		pos := c.P.Pos(wm.Pos())
		c.Check(tw != nil && okTerm, an.ShortFunc(wm)+" | transport write error reaches Manager.terminate", pos, "", "the writer's sink does not terminate the manager on every write error")
	}
	c.Floor("drpcwire.NewWriter calls in drpcmanager.NewWithOptions", 1, n)
}

func firstStaticCallee(fn *ssa.Function) *ssa.Function {
	var out *ssa.Function
	an.Instrs(fn, func(in ssa.Instruction) {
		if ci, ok := in.(ssa.CallInstruction); ok && out == nil {
			if callee := ci.Common().StaticCallee(); callee != nil && len(callee.Blocks) > 0 {
				out = callee
			}
		}
	})
	return out
}

func ifsOn(fn *ssa.Function, v ssa.Value) []*ssa.If {
	var out []*ssa.If
	an.Instrs(fn, func(in ssa.Instruction) {
		if br, ok := in.(*ssa.If); ok {
			if x, _, ok := nilTestOf(br.Cond); ok && an.Resolve(x) == v {
				out = append(out, br)
			}
		}
	})
	return out
}

// c05r10: every call through a func-typed struct field in the serving packages is dominated by "field != nil" on a
// load of the same access path (contradiction rule: the field is optional wherever it is tested).
func c05r10(c *an.Ctx) {
	n := 0
	for _, pkg := range []string{"drpcserver", "drpcmanager", "drpcstream", "drpcconn", "drpcwire"} {
		for _, fn := range must(c.P.SourceFuncs(pkg)) {
			for _, b := range fn.Blocks {
				for _, in := range b.Instrs {
					ci, ok := in.(ssa.CallInstruction)
					if !ok || ci.Common().IsInvoke() || ci.Common().StaticCallee() != nil {
						continue
					}
					ld, ok := an.Unwrap(ci.Common().Value).(*ssa.UnOp)
					if !ok || ld.Op != token.MUL {
						continue
					}
					path := an.PathOf(ld.X)
					f := path.Last()
					if f == nil {
						continue
					}
					if _, isSig := f.Type().Underlying().(*types.Signature); !isSig {
						continue
					}
					n++
					c.Analysed(fn)
					guarded := false
					for _, g := range an.GuardsOf(b) {
						bin, ok := g.Cond.(*ssa.BinOp)
						if !ok || !((bin.Op == token.NEQ && g.True) || (bin.Op == token.EQL && !g.True)) {
							continue
						}
						x := bin.X
						if an.IsNilConst(x) {
							x = bin.Y
						} else if !an.IsNilConst(bin.Y) {
							continue
						}
						if gl, ok := an.Unwrap(x).(*ssa.UnOp); ok && gl.Op == token.MUL && an.PathOf(gl.X).String() == path.String() {
							guarded = true
						}
					}
					c.Check(guarded, fmt.Sprintf("%s | call of optional callback %s is guarded by a non-nil test", an.ShortFunc(fn), path.FieldString()), c.At(in), "",
						"the func-typed field "+path.FieldString()+" is called without a dominating non-nil test of that field: with the option unset the call panics in the goroutine that serves (or accepts) connections, e.g. when ServeOne returns a transport error")
				}
			}
		}
	}
	c.Floor("calls through func-typed option fields", 2, n)
}
