package rules

// Abstract evaluation of the generator (C17.R8).
//
// The generator is a straight-line emitter: calls of GeneratedFile.P whose
// arguments are string literals, names derived from the descriptor and
// qualified identifiers, under conditions on the two streaming flags of a
// method and on the two options. Its syntax tree is evaluated here over a small
// abstract descriptor domain (files whose services cover the four method
// shapes, zero methods, several services, names with underscores, message
// types of another package) and over the option settings. Descriptor-derived
// names are symbolic identifiers. The result is the text the generator would
// print for that abstract file; it is parsed and type-checked against the
// runtime packages of the tree being analysed. Nothing of the generator is
// compiled or run; constructs the evaluator does not model make the rule
// UNDECIDED, not violated.

import (
	"fmt"
	"go/ast"
	"go/constant"
	"go/parser"
	"go/token"
	"go/types"
	"sort"
	"strconv"
	"strings"

	"golang.org/x/tools/go/packages"

	"verif/sa/internal/an"
)

type gv interface{}

type gObj struct {
	kind string
	attr map[string]gv
}
type gList struct{ elems []gv }
type gStruct struct {
	typ    *types.Struct
	fields map[string]gv
}
type gMap struct {
	keys []gv
	m    map[interface{}]gv
}
type gFunc struct {
	lit  *ast.FuncLit
	decl *ast.FuncDecl
	recv gv
}
type gUnknown struct{ why string }
type gTuple []gv
type gNil struct{}
type gLabel string

type genUndecided struct{ msg string }

const (
	ctlNone = iota
	ctlReturn
	ctlBreak
	ctlContinue
)

type genInterp struct {
	pk      *packages.Package
	info    *types.Info
	decls   map[*types.Func]*ast.FuncDecl
	store   map[types.Object]gv
	lines   []string
	linePos []token.Pos
	imports []string // registered import paths, in order
	alias   map[string]string
	selfImp string
	choices map[token.Pos]bool
	asked   []token.Pos // conditions the evaluator could not decide, in order of first occurrence
	steps   int
	depth   int
	label   string // label of the statement about to be executed
	conf    genConf
	file    *gObj
	ran     bool
}

func (g *genInterp) takeLabel() string {
	l := g.label
	g.label = ""
	return l
}

// mine reports whether a break/continue with value v targets the statement labelled own (or is unlabelled)
func mine(v gv, own string) bool {
	l, ok := v.(gLabel)
	return !ok || (own != "" && string(l) == own)
}

func (g *genInterp) fail(n ast.Node, format string, a ...interface{}) {
	pos := ""
	if n != nil {
		p := g.pk.Fset.Position(n.Pos())
		pos = fmt.Sprintf("%s:%d: ", shortFile(p.Filename), p.Line)
	}
	panic(&genUndecided{pos + fmt.Sprintf(format, a...)})
}

func (g *genInterp) choose(n ast.Node) bool {
	p := n.Pos()
	v, ok := g.choices[p]
	if !ok {
		g.choices[p] = false
		g.asked = append(g.asked, p)
	}
	return v
}

func (g *genInterp) tick(n ast.Node) {
	g.steps++
	if g.steps > 2000000 {
		g.fail(n, "evaluation does not finish")
	}
}

// ---- abstract protogen objects

func mkObj(kind string, kv ...interface{}) *gObj {
	o := &gObj{kind: kind, attr: map[string]gv{}}
	for i := 0; i+1 < len(kv); i += 2 {
		o.attr[kv[i].(string)] = kv[i+1]
	}
	return o
}

type absMethod struct {
	name   string
	cs, ss bool
	in     [2]string // import path ("" = the file's own), type name
	out    [2]string
}
type absService struct {
	name    string
	methods []absMethod
}
type absFile struct {
	label    string
	services []absService
}

func (g *genInterp) mkIdent(path, name string) *gObj {
	return mkObj("ident", "GoName", name, "GoImportPath", mkObj("importpath", "path", path))
}

func (g *genInterp) mkFile(af absFile) *gObj {
	file := mkObj("file", "GoPackageName", "genpkg", "GoImportPath", mkObj("importpath", "path", g.selfImp),
		"GeneratedFilenamePrefix", "gen/file", "Generate", true,
		"Desc", mkObj("filedesc", "Path", "gen/file.proto", "Package", "gen.pkg"),
		"GoDescriptorIdent", g.mkIdent(g.selfImp, "File_gen_file_proto"))
	svcs := &gList{}
	for _, as := range af.services {
		svc := mkObj("service", "GoName", as.name,
			"Desc", mkObj("desc", "Name", protoName(as.name), "FullName", "gen.pkg."+protoName(as.name)))
		ms := &gList{}
		for _, am := range as.methods {
			msg := func(m [2]string) *gObj {
				p := m[0]
				if p == "" {
					p = g.selfImp
				}
				return mkObj("message", "GoIdent", g.mkIdent(p, m[1]))
			}
			ms.elems = append(ms.elems, mkObj("method", "GoName", am.name, "Parent", svc, "Input", msg(am.in), "Output", msg(am.out),
				"Desc", mkObj("desc", "Name", protoName(am.name), "FullName", "gen.pkg."+protoName(as.name)+"."+protoName(am.name), "IsStreamingClient", am.cs, "IsStreamingServer", am.ss)))
		}
		svc.attr["Methods"] = ms
		svcs.elems = append(svcs.elems, svc)
	}
	file.attr["Services"] = svcs
	return file
}

// protoName is the name in the .proto file of the element whose Go name is
// given: the two differ (protoc-gen-go camel-cases), so that a generator using
// the Go name where the wire name belongs is visible.
func protoName(goName string) string {
	return strings.ToLower(goName[:1]) + goName[1:] + "_pb"
}

func cleanPkgName(path string) string {
	b := path
	if i := strings.LastIndex(b, "/"); i >= 0 {
		b = b[i+1:]
	}
	var sb strings.Builder
	for _, r := range b {
		if r == '_' || (r >= '0' && r <= '9') || (r >= 'a' && r <= 'z') || (r >= 'A' && r <= 'Z') {
			sb.WriteRune(r)
		} else {
			sb.WriteRune('_')
		}
	}
	s := sb.String()
	if s == "" || (s[0] >= '0' && s[0] <= '9') {
		s = "_" + s
	}
	return s
}

func (g *genInterp) importAlias(path string) string {
	if a, ok := g.alias[path]; ok {
		return a
	}
	base := cleanPkgName(path)
	a := base
	for n := 1; ; n++ {
		used := false
		for _, o := range g.alias {
			if o == a {
				used = true
			}
		}
		if !used {
			break
		}
		a = base + strconv.Itoa(n)
	}
	g.alias[path] = a
	g.imports = append(g.imports, path)
	return a
}

func (g *genInterp) qualified(id *gObj) string {
	name, _ := id.attr["GoName"].(string)
	ip, _ := id.attr["GoImportPath"].(*gObj)
	path := ""
	if ip != nil {
		path, _ = ip.attr["path"].(string)
	}
	if path == g.selfImp || path == "" {
		return name
	}
	return g.importAlias(path) + "." + name
}

func (g *genInterp) render(v gv) string {
	switch x := v.(type) {
	case string:
		return x
	case int:
		return strconv.Itoa(x)
	case bool:
		return strconv.FormatBool(x)
	case *gObj:
		switch x.kind {
		case "ident":
			return g.qualified(x)
		case "importpath":
			p, _ := x.attr["path"].(string)
			return strconv.Quote(p)
		}
	}
	return "‹?›"
}

func (g *genInterp) objMethod(n ast.Node, o *gObj, name string, args []gv) gv {
	switch o.kind {
	case "gf":
		switch name {
		case "P":
			var sb strings.Builder
			for _, a := range args {
				sb.WriteString(g.render(a))
			}
			g.lines = append(g.lines, sb.String())
			if n != nil {
				g.linePos = append(g.linePos, n.Pos())
			} else {
				g.linePos = append(g.linePos, token.NoPos)
			}
			return nil
		case "QualifiedGoIdent":
			if len(args) == 1 {
				if id, ok := args[0].(*gObj); ok && id.kind == "ident" {
					return g.qualified(id)
				}
			}
			g.fail(n, "QualifiedGoIdent of a value that is not an identifier")
		case "Import":
			if len(args) == 1 {
				if ip, ok := args[0].(*gObj); ok && ip.kind == "importpath" {
					if p, _ := ip.attr["path"].(string); p != g.selfImp {
						g.importAlias(p)
					}
					return nil
				}
			}
			g.fail(n, "Import of an unknown path")
		}
		g.fail(n, "GeneratedFile.%s is not modelled", name)
	case "plugin":
		if name == "NewGeneratedFile" {
			return mkObj("gf")
		}
		return &gUnknown{"plugin." + name}
	case "importpath":
		switch name {
		case "Ident":
			if len(args) == 1 {
				if s, ok := args[0].(string); ok {
					p, _ := o.attr["path"].(string)
					return g.mkIdent(p, s)
				}
			}
			g.fail(n, "GoImportPath.Ident of an unknown name")
		case "String":
			p, _ := o.attr["path"].(string)
			return strconv.Quote(p)
		}
	case "ident":
		if name == "String" {
			return g.qualified(o)
		}
	case "replacer":
		if name == "Replace" && len(args) == 1 {
			if a, ok := args[0].(string); ok {
				return strings.NewReplacer(o.attr["pairs"].([]string)...).Replace(a)
			}
		}
	case "builder":
		cur, _ := o.attr["s"].(string)
		switch name {
		case "WriteString", "WriteByte", "WriteRune", "Write":
			if len(args) == 1 {
				if n, ok := args[0].(int); ok && name != "WriteString" {
					args[0] = string(rune(n))
				}
				o.attr["s"] = cur + g.render(args[0])
				return gTuple{len(g.render(args[0])), gNil{}}
			}
		case "String":
			return cur
		case "Len":
			return len(cur)
		case "Reset":
			o.attr["s"] = ""
			return nil
		case "Bytes":
			return cur
		}
		g.fail(n, "%s of a string builder is not modelled", name)
	}
	if v, ok := o.attr[name]; ok {
		return v // descriptor accessors: Name(), FullName(), IsStreamingClient(), Path(), ...
	}
	return &gUnknown{o.kind + "." + name}
}

// ---- evaluation

func (g *genInterp) lookupVar(obj types.Object, n ast.Node) gv {
	if v, ok := g.store[obj]; ok {
		return v
	}
	// package-level variable of the generator: evaluate its initialiser once
	if vr, ok := obj.(*types.Var); ok && vr.Pkg() == g.pk.Types && vr.Parent() == g.pk.Types.Scope() {
		for _, f := range g.pk.Syntax {
			for _, d := range f.Decls {
				gd, ok := d.(*ast.GenDecl)
				if !ok || gd.Tok != token.VAR {
					continue
				}
				for _, sp := range gd.Specs {
					vs := sp.(*ast.ValueSpec)
					for i, nm := range vs.Names {
						if g.info.Defs[nm] == obj && i < len(vs.Values) && len(vs.Values) == len(vs.Names) {
							v := g.eval(vs.Values[i])
							g.store[obj] = v
							return v
						}
					}
				}
			}
		}
	}
	return &gUnknown{"variable " + obj.Name()}
}

func (g *genInterp) zero(t types.Type) gv {
	switch u := t.Underlying().(type) {
	case *types.Basic:
		switch {
		case u.Info()&types.IsString != 0:
			return ""
		case u.Info()&types.IsBoolean != 0:
			return false
		case u.Info()&types.IsInteger != 0:
			return 0
		}
	case *types.Slice:
		return &gList{}
	case *types.Map:
		return &gMap{m: map[interface{}]gv{}}
	case *types.Struct:
		if named, ok := t.(*types.Named); ok && named.Obj().Pkg() != g.pk.Types {
			if ts := t.String(); ts == "strings.Builder" || ts == "bytes.Buffer" {
				return mkObj("builder", "s", "")
			}
			return &gUnknown{"zero " + t.String()}
		}
		s := &gStruct{typ: u, fields: map[string]gv{}}
		for i := 0; i < u.NumFields(); i++ {
			s.fields[u.Field(i).Name()] = g.zero(u.Field(i).Type())
		}
		return s
	case *types.Pointer, *types.Interface, *types.Signature:
		return gNil{}
	}
	return &gUnknown{"zero " + t.String()}
}

func constVal(v constant.Value) (gv, bool) {
	switch v.Kind() {
	case constant.String:
		return constant.StringVal(v), true
	case constant.Bool:
		return constant.BoolVal(v), true
	case constant.Int:
		if i, ok := constant.Int64Val(v); ok {
			return int(i), true
		}
	}
	return nil, false
}

func mapKey(v gv) (interface{}, bool) {
	switch x := v.(type) {
	case string, int, bool:
		return x, true
	case *gObj:
		if x.kind == "importpath" || x.kind == "ident" {
			return x.kind + ":" + fmt.Sprint(x.attr["path"], x.attr["GoName"]), true
		}
		return x, true // descriptors are compared by identity
	case *gList:
		// arrays used as keys ([2]int{...})
		parts := make([]string, len(x.elems))
		for i, e := range x.elems {
			k, ok := mapKey(e)
			if !ok {
				return nil, false
			}
			parts[i] = fmt.Sprintf("%T:%v", k, k)
		}
		return "arr:" + strings.Join(parts, "|"), true
	case *gStruct:
		names := make([]string, 0, len(x.fields))
		for n := range x.fields {
			names = append(names, n)
		}
		sort.Strings(names)
		parts := []string{}
		for _, n := range names {
			k, ok := mapKey(x.fields[n])
			if !ok {
				return nil, false
			}
			parts = append(parts, fmt.Sprintf("%s=%T:%v", n, k, k))
		}
		return "st:" + strings.Join(parts, "|"), true
	}
	return nil, false
}

func (g *genInterp) truth(n ast.Node, v gv) bool {
	switch x := v.(type) {
	case bool:
		return x
	case *gUnknown:
		return g.choose(n)
	}
	g.fail(n, "condition is not a boolean")
	return false
}

func gEqual(a, b gv) (eq bool, known bool) {
	switch x := a.(type) {
	case string:
		if y, ok := b.(string); ok {
			return x == y, true
		}
	case int:
		if y, ok := b.(int); ok {
			return x == y, true
		}
	case bool:
		if y, ok := b.(bool); ok {
			return x == y, true
		}
	case gNil:
		switch y := b.(type) {
		case gNil:
			return true, true
		case *gList:
			return len(y.elems) == 0 && false, false
		case *gObj, *gStruct, *gFunc, *gMap:
			return false, true
		}
	case *gObj:
		if _, ok := b.(gNil); ok {
			return false, true
		}
		if y, ok := b.(*gObj); ok {
			if x == y {
				return true, true
			}
			if x.kind == "importpath" && y.kind == "importpath" {
				return x.attr["path"] == y.attr["path"], true
			}
			if x.kind == "ident" && y.kind == "ident" {
				e1, _ := gEqual(x.attr["GoImportPath"], y.attr["GoImportPath"])
				return e1 && x.attr["GoName"] == y.attr["GoName"], true
			}
			return false, true
		}
	case *gStruct, *gFunc, *gMap:
		if _, ok := b.(gNil); ok {
			return false, true
		}
		return a == b, true
	}
	if _, ok := b.(gNil); ok {
		if _, ok2 := a.(gNil); !ok2 {
			return gEqual(b, a)
		}
	}
	return false, false
}

func (g *genInterp) eval(e ast.Expr) gv {
	g.tick(e)
	if tv, ok := g.info.Types[e]; ok && tv.Value != nil {
		if v, ok := constVal(tv.Value); ok {
			return v
		}
	}
	switch x := e.(type) {
	case *ast.ParenExpr:
		return g.eval(x.X)
	case *ast.BasicLit:
		switch x.Kind {
		case token.STRING:
			s, err := strconv.Unquote(x.Value)
			if err != nil {
				g.fail(x, "bad string literal")
			}
			return s
		case token.CHAR:
			s, _ := strconv.Unquote(x.Value)
			return s
		}
		g.fail(x, "literal %s", x.Value)
	case *ast.Ident:
		switch x.Name {
		case "nil":
			if _, isNil := g.info.Uses[x].(*types.Nil); isNil {
				return gNil{}
			}
		case "_":
			return nil
		}
		obj := g.info.Uses[x]
		if obj == nil {
			obj = g.info.Defs[x]
		}
		switch o := obj.(type) {
		case *types.Var:
			return g.lookupVar(o, x)
		case *types.Func:
			if d := g.decls[o]; d != nil {
				return &gFunc{decl: d}
			}
			return &gUnknown{"func " + o.Name()}
		case *types.Const:
			if v, ok := constVal(o.Val()); ok {
				return v
			}
		}
		return &gUnknown{"identifier " + x.Name}
	case *ast.FuncLit:
		return &gFunc{lit: x}
	case *ast.StarExpr:
		return g.eval(x.X)
	case *ast.UnaryExpr:
		v := g.eval(x.X)
		switch x.Op {
		case token.AND:
			return v
		case token.NOT:
			if b, ok := v.(bool); ok {
				return !b
			}
			if _, ok := v.(*gUnknown); ok {
				return v
			}
		case token.SUB:
			if i, ok := v.(int); ok {
				return -i
			}
		}
		return &gUnknown{"unary"}
	case *ast.BinaryExpr:
		switch x.Op {
		case token.LAND:
			l := g.eval(x.X)
			if b, ok := l.(bool); ok && !b {
				return false
			}
			r := g.eval(x.Y)
			if b, ok := r.(bool); ok && !b {
				return false
			}
			lb, lok := l.(bool)
			rb, rok := r.(bool)
			if lok && rok {
				return lb && rb
			}
			return &gUnknown{"&&"}
		case token.LOR:
			l := g.eval(x.X)
			if b, ok := l.(bool); ok && b {
				return true
			}
			r := g.eval(x.Y)
			if b, ok := r.(bool); ok && b {
				return true
			}
			lb, lok := l.(bool)
			rb, rok := r.(bool)
			if lok && rok {
				return lb || rb
			}
			return &gUnknown{"||"}
		}
		l, r := g.eval(x.X), g.eval(x.Y)
		switch x.Op {
		case token.EQL, token.NEQ:
			if eq, known := gEqual(l, r); known {
				return eq == (x.Op == token.EQL)
			}
			return &gUnknown{"comparison"}
		case token.ADD:
			if a, ok := l.(string); ok {
				if b, ok := r.(string); ok {
					return a + b
				}
			}
		}
		if a, ok := l.(int); ok {
			if b, ok := r.(int); ok {
				switch x.Op {
				case token.ADD:
					return a + b
				case token.SUB:
					return a - b
				case token.MUL:
					return a * b
				case token.QUO:
					if b != 0 {
						return a / b
					}
				case token.REM:
					if b != 0 {
						return a % b
					}
				case token.LSS:
					return a < b
				case token.LEQ:
					return a <= b
				case token.GTR:
					return a > b
				case token.GEQ:
					return a >= b
				}
			}
		}
		if a, ok := l.(string); ok {
			if b, ok := r.(string); ok {
				switch x.Op {
				case token.LSS:
					return a < b
				case token.GTR:
					return a > b
				case token.LEQ:
					return a <= b
				case token.GEQ:
					return a >= b
				}
			}
		}
		if x.Op == token.ADD {
			// a string built from an unknown part stays marked
			ls, lok := l.(string)
			rs, rok := r.(string)
			if lok || rok {
				if !lok {
					ls = g.render(l)
				}
				if !rok {
					rs = g.render(r)
				}
				return ls + rs
			}
		}
		return &gUnknown{"binary " + x.Op.String()}
	case *ast.SelectorExpr:
		if id, ok := x.X.(*ast.Ident); ok {
			if _, isPkg := g.info.Uses[id].(*types.PkgName); isPkg {
				return &gUnknown{"package member " + id.Name + "." + x.Sel.Name}
			}
		}
		if sel, ok := g.info.Selections[x]; ok && sel.Kind() == types.MethodVal {
			recv := g.eval(x.X)
			if fn, ok := sel.Obj().(*types.Func); ok {
				if d := g.decls[fn]; d != nil {
					return &gFunc{decl: d, recv: recv}
				}
			}
			return &gUnknown{"method value"}
		}
		return g.field(x, g.eval(x.X), x.Sel.Name)
	case *ast.IndexExpr:
		c, i := g.eval(x.X), g.eval(x.Index)
		switch cv := c.(type) {
		case string:
			if n, ok := i.(int); ok && n >= 0 && n < len(cv) {
				return string(cv[n])
			}
		case *gList:
			if n, ok := i.(int); ok && n >= 0 && n < len(cv.elems) {
				return cv.elems[n]
			}
		case *gMap:
			if k, ok := mapKey(i); ok {
				if v, ok := cv.m[k]; ok {
					return v
				}
				if mt, ok := g.info.TypeOf(x.X).Underlying().(*types.Map); ok {
					return g.zero(mt.Elem())
				}
			}
		}
		return &gUnknown{"index"}
	case *ast.SliceExpr:
		c := g.eval(x.X)
		lo, hi := 0, -1
		if x.Low != nil {
			v, ok := g.eval(x.Low).(int)
			if !ok {
				return &gUnknown{"slice bound"}
			}
			lo = v
		}
		if x.High != nil {
			v, ok := g.eval(x.High).(int)
			if !ok {
				return &gUnknown{"slice bound"}
			}
			hi = v
		}
		switch cv := c.(type) {
		case string:
			if hi < 0 {
				hi = len(cv)
			}
			if lo < 0 || hi > len(cv) || lo > hi {
				g.fail(x, "the generator slices a string out of range on this input")
			}
			return cv[lo:hi]
		case *gList:
			if hi < 0 {
				hi = len(cv.elems)
			}
			if lo < 0 || hi > len(cv.elems) || lo > hi {
				g.fail(x, "the generator slices out of range on this input")
			}
			return &gList{elems: append([]gv(nil), cv.elems[lo:hi]...)}
		}
		return &gUnknown{"slice"}
	case *ast.CompositeLit:
		return g.composite(x, g.info.TypeOf(x))
	case *ast.TypeAssertExpr:
		return g.eval(x.X)
	case *ast.CallExpr:
		return g.call(x)
	case *ast.KeyValueExpr:
		g.fail(x, "key-value outside a composite literal")
	}
	return &gUnknown{fmt.Sprintf("%T", e)}
}

func (g *genInterp) field(n ast.Node, v gv, name string) gv {
	switch x := v.(type) {
	case *gStruct:
		if f, ok := x.fields[name]; ok {
			return f
		}
		// promoted through an embedded field
		for _, f := range x.fields {
			switch e := f.(type) {
			case *gStruct:
				if _, ok := e.fields[name]; ok {
					return e.fields[name]
				}
			case *gObj:
				if a, ok := e.attr[name]; ok {
					return a
				}
			}
		}
	case *gObj:
		if a, ok := x.attr[name]; ok {
			return a
		}
		return &gUnknown{x.kind + "." + name}
	}
	return &gUnknown{"field " + name}
}

func (g *genInterp) composite(x *ast.CompositeLit, t types.Type) gv {
	if t == nil {
		g.fail(x, "composite literal without a type")
	}
	if p, ok := t.Underlying().(*types.Pointer); ok {
		t = p.Elem()
	}
	elemOf := func(e ast.Expr, et types.Type) gv {
		if cl, ok := e.(*ast.CompositeLit); ok && cl.Type == nil {
			return g.composite(cl, et)
		}
		return g.eval(e)
	}
	switch u := t.Underlying().(type) {
	case *types.Struct:
		if named, ok := t.(*types.Named); ok && named.Obj().Pkg() != g.pk.Types {
			return &gUnknown{"literal of " + t.String()}
		}
		s := &gStruct{typ: u, fields: map[string]gv{}}
		for i := 0; i < u.NumFields(); i++ {
			s.fields[u.Field(i).Name()] = g.zero(u.Field(i).Type())
		}
		for i, el := range x.Elts {
			if kv, ok := el.(*ast.KeyValueExpr); ok {
				fn := kv.Key.(*ast.Ident).Name
				var ft types.Type
				for j := 0; j < u.NumFields(); j++ {
					if u.Field(j).Name() == fn {
						ft = u.Field(j).Type()
					}
				}
				s.fields[fn] = elemOf(kv.Value, ft)
			} else if i < u.NumFields() {
				s.fields[u.Field(i).Name()] = elemOf(el, u.Field(i).Type())
			}
		}
		return s
	case *types.Slice, *types.Array:
		var et types.Type
		if sl, ok := u.(*types.Slice); ok {
			et = sl.Elem()
		} else {
			et = u.(*types.Array).Elem()
		}
		l := &gList{}
		for _, el := range x.Elts {
			if kv, ok := el.(*ast.KeyValueExpr); ok {
				idx, ok := g.eval(kv.Key).(int)
				if !ok {
					g.fail(x, "indexed element with an unknown index")
				}
				for len(l.elems) <= idx {
					l.elems = append(l.elems, g.zero(et))
				}
				l.elems[idx] = elemOf(kv.Value, et)
				continue
			}
			l.elems = append(l.elems, elemOf(el, et))
		}
		if arr, ok := u.(*types.Array); ok {
			for int64(len(l.elems)) < arr.Len() {
				l.elems = append(l.elems, g.zero(et))
			}
		}
		return l
	case *types.Map:
		m := &gMap{m: map[interface{}]gv{}}
		for _, el := range x.Elts {
			kv := el.(*ast.KeyValueExpr)
			kval := elemOf(kv.Key, u.Key())
			k, ok := mapKey(kval)
			if !ok {
				g.fail(x, "map key is not a known value")
			}
			if _, dup := m.m[k]; !dup {
				m.keys = append(m.keys, kval)
			}
			m.m[k] = elemOf(kv.Value, u.Elem())
		}
		return m
	}
	return &gUnknown{"literal of " + t.String()}
}

func (g *genInterp) sprintf(n ast.Node, format string, args []gv) string {
	var sb strings.Builder
	ai := 0
	for i := 0; i < len(format); i++ {
		c := format[i]
		if c != '%' {
			sb.WriteByte(c)
			continue
		}
		i++
		if i >= len(format) {
			break
		}
		switch format[i] {
		case '%':
			sb.WriteByte('%')
		case 's', 'v', 'd':
			if ai < len(args) {
				sb.WriteString(g.render(args[ai]))
			}
			ai++
		case 'q':
			if ai < len(args) {
				sb.WriteString(strconv.Quote(g.render(args[ai])))
			}
			ai++
		default:
			g.fail(n, "format verb %%%c is not modelled", format[i])
		}
	}
	return sb.String()
}

func (g *genInterp) pkgCall(x *ast.CallExpr, pkg, name string, args []gv) gv {
	str := func(i int) (string, bool) {
		if i < len(args) {
			if n, ok := args[i].(int); ok && (strings.HasSuffix(name, "Byte") || strings.HasSuffix(name, "Rune")) {
				return string(rune(n)), true
			}
			s, ok := args[i].(string)
			return s, ok
		}
		return "", false
	}
	switch pkg + "." + name {
	case "fmt.Sprintf":
		if f, ok := str(0); ok {
			return g.sprintf(x, f, args[1:])
		}
	case "fmt.Sprint":
		var sb strings.Builder
		for _, a := range args {
			sb.WriteString(g.render(a))
		}
		return sb.String()
	case "strconv.Quote":
		if s, ok := str(0); ok {
			return strconv.Quote(s)
		}
	case "strconv.Itoa":
		if i, ok := args[0].(int); ok {
			return strconv.Itoa(i)
		}
	case "strings.ReplaceAll":
		a, ok1 := str(0)
		b, ok2 := str(1)
		c, ok3 := str(2)
		if ok1 && ok2 && ok3 {
			return strings.ReplaceAll(a, b, c)
		}
	case "strings.Join":
		if l, ok := args[0].(*gList); ok {
			if sep, ok := str(1); ok {
				parts := make([]string, len(l.elems))
				for i, e := range l.elems {
					parts[i] = g.render(e)
				}
				return strings.Join(parts, sep)
			}
		}
	case "strings.HasPrefix", "strings.HasSuffix", "strings.Contains", "strings.TrimPrefix", "strings.TrimSuffix":
		a, ok1 := str(0)
		b, ok2 := str(1)
		if ok1 && ok2 {
			switch name {
			case "HasPrefix":
				return strings.HasPrefix(a, b)
			case "HasSuffix":
				return strings.HasSuffix(a, b)
			case "Contains":
				return strings.Contains(a, b)
			case "TrimPrefix":
				return strings.TrimPrefix(a, b)
			case "TrimSuffix":
				return strings.TrimSuffix(a, b)
			}
		}
	case "strings.ToLower", "strings.ToUpper", "strings.TrimSpace", "strings.Title":
		if a, ok := str(0); ok {
			switch name {
			case "ToLower":
				return strings.ToLower(a)
			case "ToUpper":
				return strings.ToUpper(a)
			case "TrimSpace":
				return strings.TrimSpace(a)
			}
		}
	case "strings.Index", "strings.LastIndex", "strings.IndexByte", "strings.LastIndexByte", "strings.IndexRune", "strings.Count", "strings.EqualFold",
		"strings.Trim", "strings.TrimLeft", "strings.TrimRight", "strings.Split", "strings.SplitN":
		a, ok1 := str(0)
		b, ok2 := str(1)
		if ok1 && ok2 {
			switch name {
			case "Index", "IndexByte", "IndexRune":
				return strings.Index(a, b)
			case "LastIndex", "LastIndexByte":
				return strings.LastIndex(a, b)
			case "Count":
				return strings.Count(a, b)
			case "EqualFold":
				return strings.EqualFold(a, b)
			case "Trim":
				return strings.Trim(a, b)
			case "TrimLeft":
				return strings.TrimLeft(a, b)
			case "TrimRight":
				return strings.TrimRight(a, b)
			case "Split", "SplitN":
				var parts []string
				if name == "SplitN" {
					n, ok := args[2].(int)
					if !ok {
						break
					}
					parts = strings.SplitN(a, b, n)
				} else {
					parts = strings.Split(a, b)
				}
				l := &gList{}
				for _, p := range parts {
					l.elems = append(l.elems, p)
				}
				return l
			}
		}
	case "strings.Fields":
		if a, ok := str(0); ok {
			l := &gList{}
			for _, p := range strings.Fields(a) {
				l.elems = append(l.elems, p)
			}
			return l
		}
	case "strings.NewReplacer":
		ok := len(args)%2 == 0
		var pairs []string
		for _, a := range args {
			s, isS := a.(string)
			ok = ok && isS
			pairs = append(pairs, s)
		}
		if ok {
			return mkObj("replacer", "pairs", pairs)
		}
	case "strings.Repeat":
		if a, ok := str(0); ok {
			if n, ok := args[1].(int); ok && n >= 0 && n < 1000 {
				return strings.Repeat(a, n)
			}
		}
	}
	sig, _ := g.info.TypeOf(x.Fun).(*types.Signature)
	if sig != nil && sig.Results().Len() > 1 {
		t := gTuple{}
		for i := 0; i < sig.Results().Len(); i++ {
			t = append(t, &gUnknown{pkg + "." + name})
		}
		return t
	}
	return &gUnknown{pkg + "." + name}
}

func (g *genInterp) call(x *ast.CallExpr) gv {
	// conversions
	if tv, ok := g.info.Types[x.Fun]; ok && tv.IsType() && len(x.Args) == 1 {
		v := g.eval(x.Args[0])
		if named, ok := tv.Type.(*types.Named); ok && named.Obj().Name() == "GoImportPath" {
			if s, ok := v.(string); ok {
				return mkObj("importpath", "path", s)
			}
		}
		if b, ok := tv.Type.Underlying().(*types.Basic); ok && b.Info()&types.IsString != 0 {
			if o, ok := v.(*gObj); ok && o.kind == "importpath" {
				return o.attr["path"]
			}
		}
		return v
	}
	evalArgs := func() []gv {
		var out []gv
		for _, a := range x.Args {
			v := g.eval(a)
			if t, ok := v.(gTuple); ok && len(x.Args) == 1 {
				return []gv(t)
			}
			out = append(out, v)
		}
		if x.Ellipsis.IsValid() && len(out) > 0 {
			if l, ok := out[len(out)-1].(*gList); ok {
				out = append(out[:len(out)-1], l.elems...)
			}
		}
		return out
	}
	switch fun := x.Fun.(type) {
	case *ast.Ident:
		if b, ok := g.info.Uses[fun].(*types.Builtin); ok {
			args := evalArgs()
			switch b.Name() {
			case "len":
				switch a := args[0].(type) {
				case string:
					return len(a)
				case *gList:
					return len(a.elems)
				case *gMap:
					return len(a.keys)
				}
				return &gUnknown{"len"}
			case "append":
				var base []gv
				if l, ok := args[0].(*gList); ok {
					base = append(base, l.elems...)
				} else if _, isNil := args[0].(gNil); !isNil {
					return &gUnknown{"append"}
				}
				return &gList{elems: append(base, args[1:]...)}
			case "make":
				return g.zero(g.info.TypeOf(x))
			case "new":
				return g.zero(g.info.TypeOf(x).Underlying().(*types.Pointer).Elem())
			case "delete":
				if m, ok := args[0].(*gMap); ok {
					if k, ok := mapKey(args[1]); ok {
						delete(m.m, k)
						for i, kk := range m.keys {
							if k2, _ := mapKey(kk); k2 == k {
								m.keys = append(m.keys[:i], m.keys[i+1:]...)
								break
							}
						}
					}
				}
				return nil
			case "panic":
				g.fail(x, "the generator panics on this input")
			}
			return &gUnknown{"builtin " + b.Name()}
		}
		fv := g.eval(fun)
		return g.apply(x, fv, evalArgs())
	case *ast.SelectorExpr:
		if id, ok := fun.X.(*ast.Ident); ok {
			if pn, isPkg := g.info.Uses[id].(*types.PkgName); isPkg {
				return g.pkgCall(x, pn.Imported().Name(), fun.Sel.Name, evalArgs())
			}
		}
		if sel, ok := g.info.Selections[fun]; ok && (sel.Kind() == types.MethodVal) {
			if fn, ok := sel.Obj().(*types.Func); ok {
				if v, handled := g.libraryCall(x, fn.FullName()); handled {
					return v
				}
			}
			recv := g.eval(fun.X)
			args := evalArgs()
			if fn, ok := sel.Obj().(*types.Func); ok {
				if d := g.decls[fn]; d != nil {
					return g.callDecl(x, d, recv, args)
				}
			}
			// a method of a protogen object, possibly promoted through embedding
			name := fun.Sel.Name
			switch r := recv.(type) {
			case *gObj:
				return g.objMethod(x, r, name, args)
			case *gStruct:
				idx := sel.Index()
				cur := gv(r)
				for _, i := range idx[:len(idx)-1] {
					st, ok := cur.(*gStruct)
					if !ok || i >= st.typ.NumFields() {
						break
					}
					cur = st.fields[st.typ.Field(i).Name()]
				}
				if o, ok := cur.(*gObj); ok {
					return g.objMethod(x, o, name, args)
				}
			case *gUnknown:
				return g.unknownResult(x)
			}
			if sb := g.builderCall(x, recv, name, args); sb != nil {
				return sb
			}
			return g.unknownResult(x)
		}
		// field holding a function value
		return g.apply(x, g.eval(fun), evalArgs())
	}
	return g.apply(x, g.eval(x.Fun), evalArgs())
}

// libraryCall models the few library entry points the generator's main goes
// through: option flags (bound by option name) and protogen.Options.Run (the
// callback is applied to a plugin holding the abstract file).
func (g *genInterp) libraryCall(x *ast.CallExpr, full string) (gv, bool) {
	switch full {
	case "(*flag.FlagSet).StringVar", "(*flag.FlagSet).BoolVar", "(*flag.FlagSet).IntVar":
		if len(x.Args) < 3 {
			return nil, false
		}
		name, _ := g.eval(x.Args[1]).(string)
		v := g.eval(x.Args[2])
		switch {
		case name == "protolib" && strings.HasSuffix(full, "StringVar"):
			v = g.conf.protolib
		case name == "json" && strings.HasSuffix(full, "BoolVar"):
			v = g.conf.json
		}
		target := x.Args[0]
		if u, ok := target.(*ast.UnaryExpr); ok && u.Op == token.AND {
			g.assign(u.X, v, false)
			return nil, true
		}
		g.fail(x, "flag target is not an addressed variable")
	case "(*flag.FlagSet).String", "(*flag.FlagSet).Bool":
		g.fail(x, "flag values held by pointer are not modelled")
	case "(google.golang.org/protobuf/compiler/protogen.Options).Run":
		if len(x.Args) == 1 {
			if f, ok := g.eval(x.Args[0]).(*gFunc); ok {
				plugin := mkObj("plugin", "Files", &gList{elems: []gv{g.file}})
				g.ran = true
				if f.decl != nil {
					g.callDecl(x, f.decl, f.recv, []gv{plugin})
				} else {
					g.callBody(x, f.lit.Type, nil, nil, f.lit.Body, []gv{plugin})
				}
				return nil, true
			}
		}
		g.fail(x, "protogen.Options.Run with a callback that is not a function of the package")
	}
	return nil, false
}

// strings.Builder / bytes.Buffer held in a local: modelled as a one-field struct
func (g *genInterp) builderCall(x *ast.CallExpr, recv gv, name string, args []gv) gv {
	return nil
}

func (g *genInterp) unknownResult(x *ast.CallExpr) gv {
	if sig, ok := g.info.TypeOf(x.Fun).(*types.Signature); ok && sig.Results().Len() > 1 {
		t := gTuple{}
		for i := 0; i < sig.Results().Len(); i++ {
			t = append(t, &gUnknown{"call"})
		}
		return t
	}
	return &gUnknown{"call"}
}

func (g *genInterp) apply(x *ast.CallExpr, fv gv, args []gv) gv {
	f, ok := fv.(*gFunc)
	if !ok {
		return g.unknownResult(x)
	}
	if f.decl != nil {
		return g.callDecl(x, f.decl, f.recv, args)
	}
	return g.callBody(x, f.lit.Type, nil, nil, f.lit.Body, args)
}

func (g *genInterp) callDecl(x ast.Node, d *ast.FuncDecl, recv gv, args []gv) gv {
	return g.callBody(x, d.Type, d.Recv, recv, d.Body, args)
}

func (g *genInterp) callBody(x ast.Node, ft *ast.FuncType, recvList *ast.FieldList, recv gv, body *ast.BlockStmt, args []gv) gv {
	g.depth++
	defer func() { g.depth-- }()
	if g.depth > 60 {
		g.fail(x, "call depth")
	}
	if recvList != nil && len(recvList.List) == 1 && len(recvList.List[0].Names) == 1 {
		if obj := g.info.Defs[recvList.List[0].Names[0]]; obj != nil {
			g.store[obj] = recv
		}
	}
	i := 0
	if ft.Params != nil {
		for fi, f := range ft.Params.List {
			_, variadic := f.Type.(*ast.Ellipsis)
			for _, nm := range f.Names {
				obj := g.info.Defs[nm]
				if variadic && fi == len(ft.Params.List)-1 {
					rest := &gList{}
					if i < len(args) {
						rest.elems = append(rest.elems, args[i:]...)
					}
					if obj != nil {
						g.store[obj] = rest
					}
					i = len(args)
					continue
				}
				if obj != nil && i < len(args) {
					g.store[obj] = args[i]
				}
				i++
			}
			if len(f.Names) == 0 {
				i++
			}
		}
	}
	var named []types.Object
	if ft.Results != nil {
		for _, f := range ft.Results.List {
			for _, nm := range f.Names {
				if obj := g.info.Defs[nm]; obj != nil {
					g.store[obj] = g.zero(obj.Type())
					named = append(named, obj)
				}
			}
		}
	}
	ctl, val := g.block(body.List)
	if ctl == ctlReturn {
		if val == nil && len(named) > 0 {
			if len(named) == 1 {
				return g.store[named[0]]
			}
			t := gTuple{}
			for _, o := range named {
				t = append(t, g.store[o])
			}
			return t
		}
		return val
	}
	if len(named) == 1 {
		return g.store[named[0]]
	}
	return nil
}

func (g *genInterp) block(stmts []ast.Stmt) (int, gv) {
	for _, s := range stmts {
		if ctl, v := g.exec(s); ctl != ctlNone {
			return ctl, v
		}
	}
	return ctlNone, nil
}

func (g *genInterp) assign(lhs ast.Expr, v gv, define bool) {
	switch l := lhs.(type) {
	case *ast.Ident:
		if l.Name == "_" {
			return
		}
		obj := g.info.Defs[l]
		if obj == nil {
			obj = g.info.Uses[l]
		}
		if obj != nil {
			g.store[obj] = v
		}
	case *ast.SelectorExpr:
		switch b := g.eval(l.X).(type) {
		case *gStruct:
			b.fields[l.Sel.Name] = v
		case *gObj:
			b.attr[l.Sel.Name] = v // e.g. plugin.SupportedFeatures
		default:
			g.fail(lhs, "assignment to a field of an unknown value")
		}
	case *ast.IndexExpr:
		c, i := g.eval(l.X), g.eval(l.Index)
		switch cv := c.(type) {
		case *gList:
			if n, ok := i.(int); ok && n >= 0 && n < len(cv.elems) {
				cv.elems[n] = v
				return
			}
		case *gMap:
			if k, ok := mapKey(i); ok {
				if _, dup := cv.m[k]; !dup {
					cv.keys = append(cv.keys, i)
				}
				cv.m[k] = v
				return
			}
		}
		g.fail(lhs, "assignment to an element that is not known")
	case *ast.StarExpr:
		g.assign(l.X, v, define)
	case *ast.ParenExpr:
		g.assign(l.X, v, define)
	default:
		g.fail(lhs, "assignment target %T", lhs)
	}
}

func (g *genInterp) exec(s ast.Stmt) (int, gv) {
	g.tick(s)
	switch x := s.(type) {
	case *ast.ExprStmt:
		g.eval(x.X)
	case *ast.BlockStmt:
		return g.block(x.List)
	case *ast.EmptyStmt:
	case *ast.DeclStmt:
		gd, ok := x.Decl.(*ast.GenDecl)
		if !ok {
			break
		}
		for _, sp := range gd.Specs {
			vs, ok := sp.(*ast.ValueSpec)
			if !ok {
				continue
			}
			for i, nm := range vs.Names {
				obj := g.info.Defs[nm]
				if obj == nil {
					continue
				}
				if i < len(vs.Values) && len(vs.Values) == len(vs.Names) {
					g.store[obj] = g.eval(vs.Values[i])
				} else if len(vs.Values) == 0 {
					g.store[obj] = g.zero(obj.Type())
				} else {
					g.store[obj] = &gUnknown{"declaration"}
				}
			}
		}
	case *ast.AssignStmt:
		if x.Tok != token.ASSIGN && x.Tok != token.DEFINE {
			// op-assign
			cur := g.eval(x.Lhs[0])
			r := g.eval(x.Rhs[0])
			var v gv = &gUnknown{"op-assign"}
			switch x.Tok {
			case token.ADD_ASSIGN:
				if a, ok := cur.(string); ok {
					v = a + g.render(r)
				} else if a, ok := cur.(int); ok {
					if b, ok := r.(int); ok {
						v = a + b
					}
				}
			case token.SUB_ASSIGN:
				if a, ok := cur.(int); ok {
					if b, ok := r.(int); ok {
						v = a - b
					}
				}
			}
			g.assign(x.Lhs[0], v, false)
			break
		}
		if len(x.Lhs) == len(x.Rhs) {
			vals := make([]gv, len(x.Rhs))
			for i, r := range x.Rhs {
				vals[i] = g.eval(r)
			}
			for i, l := range x.Lhs {
				g.assign(l, vals[i], x.Tok == token.DEFINE)
			}
			break
		}
		if len(x.Rhs) == 1 {
			// v, ok := m[k] / x.(T) / f()
			if ix, ok := x.Rhs[0].(*ast.IndexExpr); ok && len(x.Lhs) == 2 {
				c, i := g.eval(ix.X), g.eval(ix.Index)
				if m, ok := c.(*gMap); ok {
					if k, ok := mapKey(i); ok {
						v, found := m.m[k]
						if !found {
							v = g.zero(g.info.TypeOf(ix.X).Underlying().(*types.Map).Elem())
						}
						g.assign(x.Lhs[0], v, true)
						g.assign(x.Lhs[1], found, true)
						break
					}
				}
				g.assign(x.Lhs[0], &gUnknown{"lookup"}, true)
				g.assign(x.Lhs[1], &gUnknown{"lookup"}, true)
				break
			}
			v := g.eval(x.Rhs[0])
			if t, ok := v.(gTuple); ok && len(t) == len(x.Lhs) {
				for i, l := range x.Lhs {
					g.assign(l, t[i], true)
				}
				break
			}
			if _, ok := x.Rhs[0].(*ast.TypeAssertExpr); ok && len(x.Lhs) == 2 {
				g.assign(x.Lhs[0], v, true)
				g.assign(x.Lhs[1], &gUnknown{"type assertion"}, true)
				break
			}
			for _, l := range x.Lhs {
				g.assign(l, &gUnknown{"multi-value"}, true)
			}
		}
	case *ast.IncDecStmt:
		if v, ok := g.eval(x.X).(int); ok {
			if x.Tok == token.INC {
				g.assign(x.X, v+1, false)
			} else {
				g.assign(x.X, v-1, false)
			}
		} else {
			g.assign(x.X, &gUnknown{"counter"}, false)
		}
	case *ast.IfStmt:
		if x.Init != nil {
			g.exec(x.Init)
		}
		if g.truth(x.Cond, g.eval(x.Cond)) {
			return g.block(x.Body.List)
		} else if x.Else != nil {
			return g.exec(x.Else)
		}
	case *ast.SwitchStmt:
		own := g.takeLabel()
		if x.Init != nil {
			g.exec(x.Init)
		}
		var tag gv
		if x.Tag != nil {
			tag = g.eval(x.Tag)
		}
		var deflt *ast.CaseClause
		var chosen *ast.CaseClause
	clauses:
		for _, st := range x.Body.List {
			cc := st.(*ast.CaseClause)
			if len(cc.List) == 0 {
				deflt = cc
				continue
			}
			for _, e := range cc.List {
				v := g.eval(e)
				hit := false
				if x.Tag != nil {
					eq, known := gEqual(tag, v)
					if !known {
						hit = g.choose(e)
					} else {
						hit = eq
					}
				} else {
					hit = g.truth(e, v)
				}
				if hit {
					chosen = cc
					break clauses
				}
			}
		}
		if chosen == nil {
			chosen = deflt
		}
		if chosen != nil {
			for {
				ctl, v := g.block(chosen.Body)
				if ctl == ctlBreak && mine(v, own) {
					return ctlNone, nil
				}
				if ctl != ctlNone {
					return ctl, v
				}
				// fallthrough
				if n := len(chosen.Body); n > 0 {
					if br, ok := chosen.Body[n-1].(*ast.BranchStmt); ok && br.Tok == token.FALLTHROUGH {
						for i, st := range x.Body.List {
							if st == ast.Stmt(chosen) && i+1 < len(x.Body.List) {
								chosen = x.Body.List[i+1].(*ast.CaseClause)
							}
						}
						continue
					}
				}
				break
			}
		}
	case *ast.RangeStmt:
		own := g.takeLabel()
		c := g.eval(x.X)
		var keys, vals []gv
		switch cv := c.(type) {
		case *gList:
			for i, e := range cv.elems {
				keys = append(keys, i)
				vals = append(vals, e)
			}
		case *gMap:
			for _, k := range cv.keys {
				kk, _ := mapKey(k)
				if v, ok := cv.m[kk]; ok {
					keys = append(keys, k)
					vals = append(vals, v)
				}
			}
		case int:
			for i := 0; i < cv; i++ {
				keys = append(keys, i)
				vals = append(vals, i)
			}
		case string:
			for i, r := range cv {
				keys = append(keys, i)
				vals = append(vals, string(r))
			}
		case gNil:
		default:
			g.fail(x, "range over a value that is not known")
		}
		for i := range keys {
			if x.Key != nil {
				g.assign(x.Key, keys[i], x.Tok == token.DEFINE)
			}
			if x.Value != nil {
				g.assign(x.Value, vals[i], x.Tok == token.DEFINE)
			}
			ctl, v := g.block(x.Body.List)
			if (ctl == ctlBreak || ctl == ctlContinue) && !mine(v, own) {
				return ctl, v
			}
			if ctl == ctlBreak {
				break
			}
			if ctl == ctlReturn {
				return ctl, v
			}
		}
	case *ast.ForStmt:
		own := g.takeLabel()
		if x.Init != nil {
			g.exec(x.Init)
		}
		for n := 0; ; n++ {
			if n > 10000 {
				g.fail(x, "loop does not finish")
			}
			if x.Cond != nil {
				cv := g.eval(x.Cond)
				b, ok := cv.(bool)
				if !ok {
					g.fail(x, "loop condition is not known")
				}
				if !b {
					break
				}
			}
			ctl, v := g.block(x.Body.List)
			if (ctl == ctlBreak || ctl == ctlContinue) && !mine(v, own) {
				return ctl, v
			}
			if ctl == ctlBreak {
				break
			}
			if ctl == ctlReturn {
				return ctl, v
			}
			if x.Post != nil {
				g.exec(x.Post)
			}
		}
	case *ast.ReturnStmt:
		switch len(x.Results) {
		case 0:
			return ctlReturn, nil
		case 1:
			return ctlReturn, g.eval(x.Results[0])
		}
		t := gTuple{}
		for _, r := range x.Results {
			t = append(t, g.eval(r))
		}
		return ctlReturn, t
	case *ast.BranchStmt:
		var lab gv
		if x.Label != nil {
			lab = gLabel(x.Label.Name)
		}
		switch x.Tok {
		case token.BREAK:
			return ctlBreak, lab
		case token.CONTINUE:
			return ctlContinue, lab
		case token.FALLTHROUGH:
			return ctlNone, nil
		}
		g.fail(x, "goto")
	case *ast.DeferStmt:
		g.fail(x, "defer in the generator")
	case *ast.GoStmt:
		g.fail(x, "go statement in the generator")
	case *ast.LabeledStmt:
		g.label = x.Label.Name
		ctl, v := g.exec(x.Stmt)
		g.label = ""
		if ctl == ctlBreak && v == gv(gLabel(x.Label.Name)) {
			return ctlNone, nil
		}
		return ctl, v
	default:
		g.fail(s, "statement %T is not modelled", s)
	}
	return ctlNone, nil
}

// ---- driver

type genConf struct {
	label    string
	protolib string
	json     bool
}

func newGenInterp(pk *packages.Package) *genInterp {
	g := &genInterp{pk: pk, info: pk.TypesInfo, decls: map[*types.Func]*ast.FuncDecl{}, store: map[types.Object]gv{}, alias: map[string]string{}, selfImp: "example.com/gen/genpkg", choices: map[token.Pos]bool{}}
	for _, f := range pk.Syntax {
		for _, d := range f.Decls {
			if fd, ok := d.(*ast.FuncDecl); ok && fd.Body != nil {
				if fn, ok := pk.TypesInfo.Defs[fd.Name].(*types.Func); ok {
					g.decls[fn] = fd
				}
			}
		}
	}
	return g
}

type genText struct {
	text string
	pos  []token.Pos // generator position per output line (NoPos for the inserted import block)
}

// generateAbstract evaluates generateFile for one abstract file and
// configuration, in every world of the conditions the evaluator cannot decide
// (bounded), and returns the texts.
func generateAbstract(pk *packages.Package, af absFile, conf genConf) (texts []genText, undecided string) {
	entry := genFunc(pk, "main")
	// conditions the evaluator cannot decide (build info, descriptor options) are
	// explored in both directions, keyed by source position: every assignment
	// up to 5 such conditions, beyond that all-false and all-true only.
	var known []token.Pos
	runWorld := func(ch map[token.Pos]bool) (*genInterp, string) {
		g := newGenInterp(pk)
		g.conf = conf
		g.file = g.mkFile(af)
		g.choices = ch
		und := ""
		func() {
			defer func() {
				if r := recover(); r != nil {
					if u, ok := r.(*genUndecided); ok {
						und = u.msg
						return
					}
					panic(r)
				}
			}()
			g.callDecl(entry, entry, nil, nil)
		}()
		return g, und
	}
	done := map[string]bool{}
	for round := 0; round < 8; round++ {
		var worlds []map[token.Pos]bool
		if len(known) <= 5 {
			for m := 0; m < 1<<uint(len(known)); m++ {
				w := map[token.Pos]bool{}
				for i, p := range known {
					w[p] = m&(1<<uint(i)) != 0
				}
				worlds = append(worlds, w)
			}
		} else {
			f, t := map[token.Pos]bool{}, map[token.Pos]bool{}
			for _, p := range known {
				f[p], t[p] = false, true
			}
			worlds = append(worlds, f, t)
		}
		grew := false
		for _, w := range worlds {
			sig := fmt.Sprint(len(known), w)
			if done[sig] {
				continue
			}
			done[sig] = true
			g, und := runWorld(w)
			if und != "" {
				return texts, und
			}
			if !g.ran {
				return texts, "main does not reach a GeneratedFile through protogen.Options.Run"
			}
			for _, p := range g.asked {
				isNew := true
				for _, k := range known {
					if k == p {
						isNew = false
					}
				}
				if isNew {
					known = append(known, p)
					grew = true
				}
			}
			texts = append(texts, g.assemble(af))
		}
		if !grew {
			return texts, ""
		}
		if len(known) > 12 {
			return texts, "more than 12 conditions the evaluator cannot decide"
		}
	}
	return texts, ""
}

// assemble renders the emitted lines as a file: protogen inserts the import
// block after the package clause, one import per registered path. The message
// types of the file's own package are declared at the end (they come from the
// sibling .pb.go file).
func (g *genInterp) assemble(af absFile) genText {
	var sb strings.Builder
	var pos []token.Pos
	done := false
	for i, l := range g.lines {
		for _, part := range strings.Split(l, "\n") {
			sb.WriteString(part)
			sb.WriteByte('\n')
			pos = append(pos, g.linePos[i])
		}
		if !done && strings.HasPrefix(l, "package ") {
			done = true
			if len(g.imports) > 0 {
				sb.WriteString("import (\n")
				pos = append(pos, token.NoPos)
				for _, p := range g.imports {
					fmt.Fprintf(&sb, "\t%s %q\n", g.alias[p], p)
					pos = append(pos, token.NoPos)
				}
				sb.WriteString(")\n")
				pos = append(pos, token.NoPos)
			}
		}
	}
	declared := map[string]bool{}
	for _, s := range af.services {
		for _, m := range s.methods {
			for _, t := range [][2]string{m.in, m.out} {
				if t[0] == "" && !declared[t[1]] {
					declared[t[1]] = true
					fmt.Fprintf(&sb, "type %s struct{}\n", t[1])
					pos = append(pos, token.NoPos)
				}
			}
		}
	}
	return genText{sb.String(), pos}
}

func c17r8(c *an.Ctx) {
	pk := genPkg(c)
	files, confs := genDomain()
	fset := token.NewFileSet()
	nTexts, nLines := 0, 0
	modelled := map[string]bool{}
	for _, af := range files {
		for _, conf := range confs {
			key := fmt.Sprintf("generated file | %s | %s | parses and type-checks against the runtime", af.label, conf.label)
			texts, und := generateAbstract(pk, af, conf)
			if und != "" {
				panic(&an.Unresolved{What: "the generator's emit statements (abstract evaluation stopped: " + und + ")"})
			}
			bad := ""
			var where token.Pos
			for _, gt := range texts {
				nTexts++
				nLines += len(gt.pos)
				lines := strings.Split(gt.text, "\n")
				lineInfo := func(n int) string {
					if n < 1 || n > len(lines) {
						return ""
					}
					at := ""
					if n-1 < len(gt.pos) && gt.pos[n-1].IsValid() {
						where = gt.pos[n-1]
						p := pk.Fset.Position(gt.pos[n-1])
						at = fmt.Sprintf(" (emitted at %s:%d)", shortFile(p.Filename), p.Line)
					}
					return fmt.Sprintf("generated line %q%s", strings.TrimSpace(lines[n-1]), at)
				}
				for i, l := range lines {
					if strings.Contains(l, "‹?›") && !strings.HasPrefix(strings.TrimSpace(l), "//") {
						if i < len(gt.pos) && gt.pos[i].IsValid() {
							p := pk.Fset.Position(gt.pos[i])
							panic(&an.Unresolved{What: fmt.Sprintf("the value printed at %s:%d (not derivable from the descriptor model)", shortFile(p.Filename), p.Line)})
						}
						panic(&an.Unresolved{What: "a printed value (not derivable from the descriptor model)"})
					}
				}
				f, err := parser.ParseFile(fset, "generated.go", gt.text, parser.AllErrors)
				if err != nil {
					msg := err.Error()
					if el, ok := err.(interface{ Error() string }); ok {
						msg = el.Error()
					}
					ln := 0
					fmt.Sscanf(strings.TrimPrefix(msg, "generated.go:"), "%d", &ln)
					bad = "does not parse: " + trimStr(msg, 200) + "; " + lineInfo(ln)
					break
				}
				si := &syntheticImporter{byP: c.P.ByPath, extra: map[string]*types.Package{}, srcs: genSyntheticSrcs, fset: fset, real: map[string]bool{}}
				var terrs []types.Error
				tc := types.Config{Importer: si, Error: func(err error) {
					if te, ok := err.(types.Error); ok {
						terrs = append(terrs, te)
					}
				}}
				tinfo := &types.Info{Types: map[ast.Expr]types.TypeAndValue{}, Defs: map[*ast.Ident]types.Object{}}
				tc.Check("example.com/gen/genpkg", fset, []*ast.File{f}, tinfo)
				for p := range si.extra {
					modelled[p] = true
				}
				if len(terrs) > 0 {
					te := terrs[0]
					ln := fset.Position(te.Pos).Line
					bad = fmt.Sprintf("does not type-check (%d errors), first: %s; %s", len(terrs), trimStr(te.Msg, 200), lineInfo(ln))
					break
				}
				if msg, ln := genAgreement(fset, f, af, tinfo); msg != "" {
					bad = "is inconsistent: " + msg + "; " + lineInfo(ln)
					break
				}
			}
			pos := c.P.Pos(genFunc(pk, "main").Pos())
			if where.IsValid() {
				pos = c.P.Pos(where)
			}
			c.Check(bad == "", key, pos, "", "for this descriptor shape and option setting the text the generator prints "+bad)
		}
	}
	var ms []string
	for p := range modelled {
		ms = append(ms, p)
	}
	sort.Strings(ms)
	c.Note("abstract files x option settings evaluated: %d x %d; texts %d, lines %d; packages served from models rather than the build: %s", len(files), len(confs), nTexts, nLines, strings.Join(ms, ", "))
	c.Floor("generated texts evaluated", len(files)*len(confs), nTexts)
	c.Floor("generated lines", 500, nLines)
}

// genAgreement checks, on the parsed text, what the runtime relies on across
// declarations: every service has one description whose NumMethods equals its
// number of rows and the service's number of methods, each row names the RPC
// "/<service full name>/<method name>" of the descriptor and the method
// expression of that method, and the client stub of the method invokes the
// same RPC name.
func genAgreement(fset *token.FileSet, f *ast.File, af absFile, tinfo *types.Info) (string, int) {
	recvName := func(fd *ast.FuncDecl) string {
		if fd.Recv == nil || len(fd.Recv.List) != 1 {
			return ""
		}
		t := fd.Recv.List[0].Type
		if st, ok := t.(*ast.StarExpr); ok {
			t = st.X
		}
		if id, ok := t.(*ast.Ident); ok {
			return id.Name
		}
		return ""
	}
	// data flow inside each generated function: a message the function allocates and returns has been handed to a
	// call first (MsgRecv / Invoke fill it; otherwise the caller gets an empty message). An unused parameter is
	// deliberately NOT reported: naming the context of an unimplemented-server method changes no behaviour
	for _, d := range f.Decls {
		fd, ok := d.(*ast.FuncDecl)
		if !ok || fd.Body == nil {
			continue
		}
		fresh := map[string]token.Pos{}
		ast.Inspect(fd.Body, func(n ast.Node) bool {
			as, ok := n.(*ast.AssignStmt)
			if !ok || len(as.Lhs) != 1 || len(as.Rhs) != 1 {
				return true
			}
			id, isID := as.Lhs[0].(*ast.Ident)
			call, isCall := as.Rhs[0].(*ast.CallExpr)
			if !isID || !isCall {
				return true
			}
			if fn, ok := call.Fun.(*ast.Ident); ok && fn.Name == "new" && len(call.Args) == 1 {
				fresh[id.Name] = as.Pos()
			}
			return true
		})
		passed := map[string]token.Pos{} // first position at which the name is an argument of a call
		ast.Inspect(fd.Body, func(n ast.Node) bool {
			switch x := n.(type) {
			case *ast.CallExpr:
				for _, a := range x.Args {
					if id, ok := a.(*ast.Ident); ok {
						if p, seen := passed[id.Name]; !seen || x.Pos() < p {
							passed[id.Name] = x.Pos()
						}
					}
				}
			}
			return true
		})
		bad, badLine := "", 0
		ast.Inspect(fd.Body, func(n ast.Node) bool {
			r, ok := n.(*ast.ReturnStmt)
			if !ok {
				return true
			}
			for _, res := range r.Results {
				id, ok := res.(*ast.Ident)
				if !ok {
					continue
				}
				if at, isFresh := fresh[id.Name]; isFresh && at < r.Pos() {
					if p, was := passed[id.Name]; !was || p > r.Pos() {
						bad = fmt.Sprintf("%s returns %s, which it allocated with new(...), without having passed it to any call (MsgRecv or Invoke fill it): the caller receives an empty message", fd.Name.Name, id.Name)
						badLine = fset.Position(r.Pos()).Line
					}
				}
			}
			return true
		})
		if bad != "" {
			return bad, badLine
		}
	}
	type row struct {
		rpc, method string
		line        int
	}
	num := map[string]int{}
	numLine := map[string]int{}
	rows := map[string][]row{}
	stubs := map[string][]string{} // rpc name -> names of the functions that invoke it
	invokeBad, invokeLine := "", 0
	for _, d := range f.Decls {
		fd, ok := d.(*ast.FuncDecl)
		if !ok || fd.Body == nil {
			continue
		}
		rn := recvName(fd)
		switch {
		case fd.Name.Name == "NumMethods" && rn != "":
			ast.Inspect(fd.Body, func(n ast.Node) bool {
				if r, ok := n.(*ast.ReturnStmt); ok && len(r.Results) == 1 {
					if bl, ok := r.Results[0].(*ast.BasicLit); ok && bl.Kind == token.INT {
						v, _ := strconv.Atoi(bl.Value)
						num[rn] = v
						numLine[rn] = fset.Position(r.Pos()).Line
					}
				}
				return true
			})
		case fd.Name.Name == "Method" && rn != "":
			rows[rn] = []row{}
			ast.Inspect(fd.Body, func(n ast.Node) bool {
				cc, ok := n.(*ast.CaseClause)
				if !ok || len(cc.List) == 0 {
					return true
				}
				for _, st := range cc.Body {
					r, ok := st.(*ast.ReturnStmt)
					if !ok || len(r.Results) < 4 {
						continue
					}
					rw := row{line: fset.Position(r.Pos()).Line}
					if bl, ok := r.Results[0].(*ast.BasicLit); ok && bl.Kind == token.STRING {
						rw.rpc, _ = strconv.Unquote(bl.Value)
					}
					if se, ok := r.Results[3].(*ast.SelectorExpr); ok {
						rw.method = se.Sel.Name
					}
					rows[rn] = append(rows[rn], rw)
				}
				return true
			})
		}
		ast.Inspect(fd.Body, func(n ast.Node) bool {
			call, ok := n.(*ast.CallExpr)
			if !ok || len(call.Args) < 2 {
				return true
			}
			se, ok := call.Fun.(*ast.SelectorExpr)
			if !ok || (se.Sel.Name != "Invoke" && se.Sel.Name != "NewStream") {
				return true
			}
			if bl, ok := call.Args[1].(*ast.BasicLit); ok && bl.Kind == token.STRING {
				rpc, _ := strconv.Unquote(bl.Value)
				stubs[rpc] = append(stubs[rpc], fd.Name.Name)
			}
			// a unary stub sends its request parameter and receives into a value of its result type
			if se.Sel.Name == "Invoke" && len(call.Args) == 5 && fd.Type.Results != nil && len(fd.Type.Results.List) > 0 && len(fd.Type.Params.List) > 0 {
				last := fd.Type.Params.List[len(fd.Type.Params.List)-1]
				pt, rt := tinfo.Types[last.Type].Type, tinfo.Types[fd.Type.Results.List[0].Type].Type
				st, ot := tinfo.Types[call.Args[3]].Type, tinfo.Types[call.Args[4]].Type
				if pt != nil && rt != nil && st != nil && ot != nil && (!types.Identical(pt, st) || !types.Identical(rt, ot)) && invokeBad == "" {
					invokeBad = fmt.Sprintf("stub %s sends a %s and receives into a %s, its signature takes %s and returns %s", fd.Name.Name, st, ot, pt, rt)
					invokeLine = fset.Position(call.Pos()).Line
				}
			}
			return true
		})
	}
	if invokeBad != "" {
		return invokeBad, invokeLine
	}
	// a stub whose client side does not stream sends the request and half-closes before it hands out the stream
	for _, sv := range af.services {
		for _, m := range sv.methods {
			if m.cs || !m.ss {
				continue
			}
			found := false
			for _, d := range f.Decls {
				fd, ok := d.(*ast.FuncDecl)
				if !ok || fd.Body == nil || fd.Name.Name != m.name || fd.Recv == nil {
					continue
				}
				opens := false
				var order []string
				ast.Inspect(fd.Body, func(n ast.Node) bool {
					if call, ok := n.(*ast.CallExpr); ok {
						if se, ok := call.Fun.(*ast.SelectorExpr); ok {
							switch se.Sel.Name {
							case "NewStream":
								opens = true
							case "MsgSend", "CloseSend":
								order = append(order, se.Sel.Name)
							}
						}
					}
					return true
				})
				if !opens {
					continue
				}
				found = true
				if strings.Join(order, ",") != "MsgSend,CloseSend" {
					return fmt.Sprintf("the stub of server-streaming method %s does %v between opening the stream and returning it (wanted: MsgSend of the request, then CloseSend): the handler never sees the request, or never sees the end of the client's side", m.name, order), fset.Position(fd.Pos()).Line
				}
			}
			if !found {
				return "no client stub opens a stream for server-streaming method " + m.name, 0
			}
		}
	}
	if len(rows) != len(af.services) {
		return fmt.Sprintf("%d descriptions for %d services", len(rows), len(af.services)), 0
	}
	used := map[string]bool{}
	for _, s := range af.services {
		// the description of this service: the one whose rows carry its RPC names (or, without methods, an unused empty one)
		var want []string
		for _, m := range s.methods {
			want = append(want, "/gen.pkg."+protoName(s.name)+"/"+protoName(m.name))
		}
		found := ""
		for rn, rws := range rows {
			if used[rn] || len(rws) != len(want) {
				continue
			}
			match := true
			for i, rw := range rws {
				if rw.rpc != want[i] {
					match = false
				}
			}
			if match {
				found = rn
				break
			}
		}
		if found == "" {
			return fmt.Sprintf("no description lists exactly the RPCs %v of service %s in the descriptor's order (rows found: %v)", want, s.name, rows), 0
		}
		used[found] = true
		if n, ok := num[found]; !ok || n != len(s.methods) {
			return fmt.Sprintf("%s.NumMethods returns %d for a service with %d methods", found, n, len(s.methods)), numLine[found]
		}
		for i, m := range s.methods {
			rw := rows[found][i]
			if rw.method != m.name {
				return fmt.Sprintf("row %d of %s registers RPC %s with the method expression of %s instead of %s", i, found, rw.rpc, rw.method, m.name), rw.line
			}
			ok := false
			for _, fn := range stubs[rw.rpc] {
				if fn == m.name {
					ok = true
				}
			}
			if !ok {
				return fmt.Sprintf("no client stub %s invokes %s (stubs invoking it: %v)", m.name, rw.rpc, stubs[rw.rpc]), rw.line
			}
		}
	}
	return "", 0
}

// syntheticImporter serves the runtime packages from the analysed tree and a
// few synthetic ones (message packages, user codec packages, third-party
// protobuf libraries that are not part of the build) from source.
type syntheticImporter struct {
	byP   map[string]*packages.Package
	extra map[string]*types.Package
	srcs  map[string]string
	fset  *token.FileSet
	real  map[string]bool
}

func (si *syntheticImporter) Import(path string) (*types.Package, error) {
	if p, ok := si.extra[path]; ok {
		return p, nil
	}
	if pk, ok := si.byP[path]; ok && pk.Types != nil && pk.Types.Complete() && len(pk.Errors) == 0 {
		si.real[path] = true
		return pk.Types, nil
	}
	if src, ok := si.srcs[path]; ok {
		f, err := parser.ParseFile(si.fset, path+"/synthetic.go", src, 0)
		if err != nil {
			return nil, err
		}
		conf := types.Config{Importer: si}
		p, err := conf.Check(path, si.fset, []*ast.File{f}, nil)
		if err != nil {
			return nil, err
		}
		si.extra[path] = p
		return p, nil
	}
	return nil, fmt.Errorf("package %s is neither part of the analysed build nor modelled", path)
}

var genSyntheticSrcs = map[string]string{
	"example.com/other/otherpb": "package otherpb\ntype Req struct{}\ntype Resp struct{}\n",
	"example.com/codec/full": `package full
import drpc "storj.io/drpc"
func Marshal(msg drpc.Message) ([]byte, error) { return nil, nil }
func Unmarshal(buf []byte, msg drpc.Message) error { return nil }
func JSONMarshal(msg drpc.Message) ([]byte, error) { return nil, nil }
func JSONUnmarshal(buf []byte, msg drpc.Message) error { return nil }
`,
	"example.com/codec/binaryonly": `package binaryonly
import drpc "storj.io/drpc"
func Marshal(msg drpc.Message) ([]byte, error) { return nil, nil }
func Unmarshal(buf []byte, msg drpc.Message) error { return nil }
`,
	// API models of third-party libraries, used only when the library itself is not part of the analysed build
	"google.golang.org/protobuf/proto": `package proto
type Message interface{ ProtoReflect() interface{} }
type MarshalOptions struct{}
func (MarshalOptions) MarshalAppend(b []byte, m Message) ([]byte, error) { return nil, nil }
func Marshal(m Message) ([]byte, error) { return nil, nil }
func Unmarshal(b []byte, m Message) error { return nil }
`,
	"google.golang.org/protobuf/encoding/protojson": `package protojson
import "google.golang.org/protobuf/proto"
func Marshal(m proto.Message) ([]byte, error) { return nil, nil }
func Unmarshal(b []byte, m proto.Message) error { return nil }
`,
	"github.com/gogo/protobuf/proto": `package proto
type Message interface{ Reset(); String() string; ProtoMessage() }
type Buffer struct{}
func NewBuffer(e []byte) *Buffer { return nil }
func (*Buffer) Marshal(pb Message) error { return nil }
func (*Buffer) Bytes() []byte { return nil }
func Marshal(pb Message) ([]byte, error) { return nil, nil }
func Unmarshal(buf []byte, pb Message) error { return nil }
`,
	"github.com/gogo/protobuf/jsonpb": `package jsonpb
import ("io"; "github.com/gogo/protobuf/proto")
type Marshaler struct{}
func (*Marshaler) Marshal(out io.Writer, pb proto.Message) error { return nil }
func Unmarshal(r io.Reader, pb proto.Message) error { return nil }
`,
}

func genDomain() ([]absFile, []genConf) {
	four := func(svc string, names [4]string, ext bool) absService {
		in, out := [2]string{"", svc + "Req"}, [2]string{"", svc + "Resp"}
		if ext {
			in, out = [2]string{"example.com/other/otherpb", "Req"}, [2]string{"example.com/other/otherpb", "Resp"}
		}
		return absService{name: svc, methods: []absMethod{
			{name: names[0], in: in, out: out},
			{name: names[1], cs: true, in: in, out: out},
			{name: names[2], ss: true, in: in, out: out},
			{name: names[3], cs: true, ss: true, in: in, out: out},
		}}
	}
	std := [4]string{"Unary", "ClientStream", "ServerStream", "Bidi"}
	files := []absFile{
		{label: "one service, four shapes", services: []absService{four("Svc", std, false)}},
		{label: "two services with equal method names, one service without methods", services: []absService{four("Alpha", std, false), four("Beta", std, false), {name: "Empty"}}},
		{label: "only services without methods", services: []absService{{name: "Empty"}, {name: "Void"}}},
		{label: "underscored names that collide unless escaped", services: []absService{
			{name: "A_B", methods: []absMethod{{name: "C", cs: true, ss: true, in: [2]string{"", "M"}, out: [2]string{"", "M"}}}},
			{name: "A", methods: []absMethod{{name: "B_C", cs: true, ss: true, in: [2]string{"", "M"}, out: [2]string{"", "M"}}}},
		}},
		{label: "messages of another package", services: []absService{four("Ext", std, true)}},
		{label: "one unary method", services: []absService{{name: "Solo", methods: []absMethod{{name: "Do", in: [2]string{"", "SoloReq"}, out: [2]string{"", "SoloResp"}}}}}},
	}
	confs := []genConf{
		{"protolib=google.golang.org/protobuf,json=true", "google.golang.org/protobuf", true},
		{"protolib=google.golang.org/protobuf,json=false", "google.golang.org/protobuf", false},
		{"protolib=github.com/gogo/protobuf,json=true", "github.com/gogo/protobuf", true},
		{"protolib=github.com/gogo/protobuf,json=false", "github.com/gogo/protobuf", false},
		{"protolib=<user package with all four functions>,json=true", "example.com/codec/full", true},
		{"protolib=<user package with Marshal/Unmarshal only>,json=false", "example.com/codec/binaryonly", false},
	}
	return files, confs
}
