package rules

import (
	"fmt"
	"go/ast"
	"go/constant"
	"go/token"
	"go/types"
	"golang.org/x/tools/go/ssa"
	"regexp"
	"sort"
	"strconv"
	"strings"

	"golang.org/x/tools/go/packages"

	"verif/sa/internal/an"
)

func init() {
	register(&Property{
		ID:        "C17",
		Technique: "syntax-tree analysis of the generator: emitted-literal scan against the registered import set, single-producer check for RPC names, abstract evaluation of the streaming-flag guards over their four assignments compared with the mux's extracted classification switch; abstract interpretation of the generator's emit statements over a finite descriptor domain with symbolic names, the resulting text parsed and type-checked (go/parser, go/types) against the runtime packages of the analysed tree; type-level agreement check over checked-in generated code (thorough)",
		Explanation: "The ways a service descriptor can influence the generated file that are visible in the generator's source: " +
			"(R1) qualified identifiers: no emitted string literal names an imported package directly (protogen may rename imports), except the runtime package whose import is registered before any descriptor-derived identifier on every path; " +
			"(R2) RPC names have a single producer (RPCGoString = '/' + service full name + '/' + method name from the descriptor), which is what the client stubs and the server description both emit; no other emitted literal starts an RPC path; " +
			"(R4) shape agreement for every descriptor: the generator's behaviour depends on a method only through its two streaming flags, so its four method-expression shapes are read off the guards (evaluated as truth tables) and pushed through the mux's own classification switch (extracted from registerOne): unary flag, which parameter is the request message, and stream-vs-message input must equal what the generated receiver closure asserts and what Mux.HandleRPC supplies; the client side's Invoke/NewStream choice and 'in' argument follow the same flags; " +
			"(R8) the generator's syntax tree is evaluated (not compiled or run) over abstract files - one service with the four method shapes, several services with equal method names, services without methods, underscored names that collide unless escaped, messages of another package, a single unary method - times the option settings (both built-in libraries with and without json, a user codec package with all four functions, one with Marshal/Unmarshal only); descriptor-derived names are symbolic identifiers, imports are registered as protogen does; each resulting text must parse, type-check against storj.io/drpc and drpcerr as they are in the tree (unused imports, missing returns, undefined or redeclared identifiers, wrong argument lists are type errors), and its description rows, NumMethods and client stubs must name the descriptor's RPCs consistently; " +
			"(R3, thorough) for every checked-in generated file in the test sub-modules, each drpc.Description's NumMethods equals its number of cases and client stubs and descriptions use equal RPC name constants.",
		NotDecided: "well-typedness of the generated file for descriptors outside the abstract domain of R8 (name clashes with Go keywords or with identifiers of the sibling .pb.go file, nested/imported message name mangling done by protogen itself, comments and deprecation options); protogen and the third-party protobuf libraries are modelled by their API (gogo and, when not part of the build, google protobuf), not analysed. Constructs of the generator the evaluator does not model make R8 UNDECIDED, never discharged.",
		Rules: []Rule{
			{ID: "C17.R1", Doc: "emitted literals never name an imported package directly (except the first-registered runtime import)", Run: c17r1},
			{ID: "C17.R2", Doc: "every RPC name the generator emits (Invoke, NewStream, description) evaluates symbolically to the quoted \"/\" + service full name + \"/\" + proto method name", Run: c17r2},
			{ID: "C17.R4", Doc: "the four generated method shapes, pushed through the mux's extracted switch, agree with the receiver closure and HandleRPC", Run: c17r4},
			{ID: "C17.R5", Doc: "identifier helpers that join two descriptor names with '_' escape '_' in both parts (injective mangling)", Run: c17r5},
			{ID: "C17.R6", Doc: "plugin options (protolib, json) are read only inside the Run callback, through the variables the flags are bound to: no copy is taken before the parameters are parsed", Run: c17r6},
			{ID: "C17.R8", Doc: "abstract evaluation of the generator over a descriptor domain (four method shapes, several services, services without methods, colliding underscored names, messages of another package) and the option settings: the printed text parses and type-checks against the runtime packages", Run: c17r8},
			{ID: "C17.R7", Doc: "the helpers that compute generated identifiers and RPC names from a service/method are functions of their arguments: they keep no state between calls", Run: c17r7},
			{ID: "C17.R3", Doc: "checked-in generated files: NumMethods == number of cases; client and description RPC constants agree", Run: c17r3, Tier: "thorough", Scope: "sub:internal/integration"},
		},
	})
}

func genPkg(c *an.Ctx) *packages.Package {
	pk := c.P.ByPath[c.P.ModPath+"/cmd/protoc-gen-go-drpc"]
	if pk == nil {
		panic(&an.Unresolved{What: "package cmd/protoc-gen-go-drpc"})
	}
	return pk
}

func genFunc(pk *packages.Package, name string) *ast.FuncDecl {
	for _, f := range pk.Syntax {
		for _, d := range f.Decls {
			if fd, ok := d.(*ast.FuncDecl); ok && fd.Name.Name == name && fd.Body != nil {
				return fd
			}
		}
	}
	panic(&an.Unresolved{What: "generator function " + name})
}

func strLit(pk *packages.Package, e ast.Expr) (string, bool) {
	if tv, ok := pk.TypesInfo.Types[e]; ok && tv.Value != nil && tv.Value.Kind() == constant.String {
		return constant.StringVal(tv.Value), true
	}
	return "", false
}

// identCalls returns the (path, ident) pairs of every d.Ident("path","Name") call under n.
func identCalls(pk *packages.Package, n ast.Node) [][2]string {
	var out [][2]string
	ast.Inspect(n, func(x ast.Node) bool {
		call, ok := x.(*ast.CallExpr)
		if !ok {
			return true
		}
		sel, ok := call.Fun.(*ast.SelectorExpr)
		if !ok || sel.Sel.Name != "Ident" || len(call.Args) != 2 {
			return true
		}
		p, ok1 := strLit(pk, call.Args[0])
		i, ok2 := strLit(pk, call.Args[1])
		if ok2 {
			if !ok1 {
				p = "<dynamic>"
			}
			out = append(out, [2]string{p, i})
		}
		return true
	})
	return out
}

func c17r1(c *an.Ctx) {
	pk := genPkg(c)
	// imports the generated code can use: base names of every d.Ident path
	bases := map[string]string{}
	for _, f := range pk.Syntax {
		for _, ic := range identCalls(pk, f) {
			if ic[0] == "<dynamic>" {
				continue
			}
			b := ic[0]
			if i := strings.LastIndex(b, "/"); i >= 0 {
				b = b[i+1:]
			}
			bases[b] = ic[0]
		}
	}
	c.Floor("import paths registered through d.Ident", 1, len(bases))
	re := regexp.MustCompile(`\b([a-z][a-z0-9_]*)\.([A-Z][A-Za-z0-9_]*)`)
	nLit, nBad := 0, 0
	for _, f := range pk.Syntax {
		ast.Inspect(f, func(n ast.Node) bool {
			bl, ok := n.(*ast.BasicLit)
			if !ok || bl.Kind != token.STRING {
				return true
			}
			s, err := strconv.Unquote(bl.Value)
			if err != nil {
				return true
			}
			nLit++
			for _, m := range re.FindAllStringSubmatch(s, -1) {
				path, isImport := bases[m[1]]
				if !isImport {
					continue
				}
				if m[1] == "drpc" {
					continue // checked below: registered first
				}
				nBad++
				c.Bad(fmt.Sprintf("generator | literal %q names package %s directly", trimStr(s, 40), m[1]), c.P.Pos(bl.Pos()),
					"the generator emits the literal text "+m[0]+" instead of a qualified identifier for "+path+": when a message package of the service has the same name, protogen renames the import (e.g. "+m[1]+"1) and the generated file no longer type-checks")
			}
			return true
		})
	}
	if nBad == 0 {
		c.Ok("generator | emitted literals name no imported package directly", "-", fmt.Sprintf("%d string literals scanned against imports %v", nLit, keysOf(bases)))
	}
	// `drpc.` literals are safe only if storj.io/drpc is the first import registered on every path:
	// generateFile calls generateEncoding before any generateService, and every branch of generateEncoding's switch
	// starts with a d.Ident("storj.io/drpc", ...) before any descriptor-derived identifier.
	// the function that drives the generation of one file is found by what it does (it calls generateEncoding),
	// not by its name or by being a function rather than a method
	var gf *ast.FuncDecl
	for _, f := range pk.Syntax {
		for _, d := range f.Decls {
			fd, ok := d.(*ast.FuncDecl)
			if !ok || fd.Body == nil {
				continue
			}
			ast.Inspect(fd.Body, func(n ast.Node) bool {
				if call, ok := n.(*ast.CallExpr); ok {
					if sel, ok := call.Fun.(*ast.SelectorExpr); ok && sel.Sel.Name == "generateEncoding" {
						gf = fd
					}
				}
				return true
			})
		}
	}
	if gf == nil {
		panic(&an.Unresolved{What: "generator function calling generateEncoding"})
	}
	encPos, svcPos := token.NoPos, token.NoPos
	ast.Inspect(gf.Body, func(n ast.Node) bool {
		if call, ok := n.(*ast.CallExpr); ok {
			if sel, ok := call.Fun.(*ast.SelectorExpr); ok {
				switch sel.Sel.Name {
				case "generateEncoding":
					if encPos == token.NoPos {
						encPos = call.Pos()
					}
				case "generateService":
					if svcPos == token.NoPos {
						svcPos = call.Pos()
					}
				}
			}
		}
		return true
	})
	c.Check(encPos != token.NoPos && svcPos != token.NoPos && encPos < svcPos, "generateFile | encoding (which registers the runtime import) is generated before any service", c.P.Pos(gf.Pos()), "", "service code is emitted before the runtime package's import is registered: a message package named drpc would take the name and the literal drpc.Stream would refer to it")
	ge := genFunc(pk, "generateEncoding")
	nBranch := 0
	ast.Inspect(ge.Body, func(n ast.Node) bool {
		cc, ok := n.(*ast.CaseClause)
		if !ok {
			return true
		}
		nBranch++
		ics := identCalls(pk, cc)
		ok2 := len(ics) > 0 && ics[0][0] == "storj.io/drpc"
		c.Check(ok2, "generateEncoding | every protolib branch registers storj.io/drpc first", c.P.Pos(cc.Pos()), "", "a branch registers another import before the runtime package")
		return true
	})
	c.Floor("protolib branches", 1, nBranch)
}

func trimStr(s string, n int) string {
	if len(s) > n {
		return s[:n] + "…"
	}
	return s
}

func keysOf(m map[string]string) []string {
	var out []string
	for k := range m {
		out = append(out, k)
	}
	sort.Strings(out)
	return out
}

// ---------------------------------------------------------------------------
// R2: symbolic evaluation of the strings the generator builds for RPC names

// genStr evaluates a string-valued generator expression to a normal form: literal text verbatim, descriptor
// reads as ⟨Type.path⟩ atoms (the variable they are read through does not matter, only the descriptor type),
// strconv.Quote as Quote(...). Locals with a single assignment, parameters bound at a call, and same-package
// helpers whose body is a single return are looked through. ok=false: something it does not understand.
type genStr struct {
	pk    *packages.Package
	depth int
}

func (g *genStr) eval(e ast.Expr, env map[types.Object]ast.Expr, fn ast.Node) (string, bool) {
	if g.depth > 40 {
		return "", false
	}
	g.depth++
	defer func() { g.depth-- }()
	info := g.pk.TypesInfo
	switch x := e.(type) {
	case *ast.ParenExpr:
		return g.eval(x.X, env, fn)
	case *ast.BasicLit:
		if s, ok := strLit(g.pk, x); ok {
			return s, true
		}
	case *ast.BinaryExpr:
		if x.Op == token.ADD {
			a, ok1 := g.eval(x.X, env, fn)
			b, ok2 := g.eval(x.Y, env, fn)
			return a + b, ok1 && ok2
		}
	case *ast.Ident:
		obj := info.Uses[x]
		if obj == nil {
			obj = info.Defs[x]
		}
		if bound, ok := env[obj]; ok && bound != nil {
			return g.eval(bound, nil, fn) // arguments are evaluated in the caller, whose own bindings were applied when binding
		}
		if s, ok := strLit(g.pk, x); ok {
			return s, true // a string constant
		}
		if v, ok := obj.(*types.Var); ok {
			if a := g.atomRoot(v.Type()); a != "" {
				return "⟨" + a + "⟩", true
			}
			if rhs := g.singleAssignment(v, fn); rhs != nil {
				return g.eval(rhs, env, fn)
			}
		}
	case *ast.SelectorExpr:
		if a, ok := g.atom(x, env, fn); ok {
			return a, true
		}
	case *ast.CallExpr:
		if tv, ok := info.Types[x.Fun]; ok && tv.IsType() && len(x.Args) == 1 {
			return g.eval(x.Args[0], env, fn) // string(x)
		}
		if sel, ok := x.Fun.(*ast.SelectorExpr); ok {
			if f, ok := info.Uses[sel.Sel].(*types.Func); ok && f.Pkg() != nil {
				switch f.FullName() {
				case "fmt.Sprintf":
					if format, ok := strLit(g.pk, x.Args[0]); ok {
						return g.sprintf(format, x.Args[1:], env, fn)
					}
					return "", false
				case "strconv.Quote":
					in, ok := g.eval(x.Args[0], env, fn)
					return "Quote(" + in + ")", ok
				}
				if f.Pkg() == g.pk.Types {
					return g.inlineHelper(f, x, env, fn)
				}
			}
			if a, ok := g.atom(x, env, fn); ok {
				return a, true
			}
		}
		if id, ok := x.Fun.(*ast.Ident); ok {
			if f, ok := info.Uses[id].(*types.Func); ok && f.Pkg() == g.pk.Types {
				return g.inlineHelper(f, x, env, fn)
			}
		}
	}
	return "", false
}

func (g *genStr) sprintf(format string, args []ast.Expr, env map[types.Object]ast.Expr, fn ast.Node) (string, bool) {
	out := ""
	ai := 0
	for i := 0; i < len(format); i++ {
		if format[i] != '%' {
			out += string(format[i])
			continue
		}
		if i+1 >= len(format) {
			return "", false
		}
		i++
		switch format[i] {
		case '%':
			out += "%"
		case 's', 'v':
			if ai >= len(args) {
				return "", false
			}
			s, ok := g.eval(args[ai], env, fn)
			if !ok {
				return "", false
			}
			out += s
			ai++
		case 'q':
			if ai >= len(args) {
				return "", false
			}
			s, ok := g.eval(args[ai], env, fn)
			if !ok {
				return "", false
			}
			out += "Quote(" + s + ")"
			ai++
		default:
			return "", false
		}
	}
	return out, ai == len(args)
}

// atomRoot names a descriptor type: "Method", "Service", ...
func (g *genStr) atomRoot(t types.Type) string {
	if p, ok := t.(*types.Pointer); ok {
		t = p.Elem()
	}
	if nt, ok := t.(*types.Named); ok && nt.Obj().Pkg() != nil {
		path := nt.Obj().Pkg().Path()
		if strings.HasSuffix(path, "protogen") || strings.HasSuffix(path, "protoreflect") {
			return nt.Obj().Name()
		}
	}
	return ""
}

// atom renders a read of a descriptor (x.Desc.FullName(), method.GoName, ...) by the descriptor type it starts
// from; a step that yields another protogen descriptor (method.Parent) restarts the path at that type.
func (g *genStr) atom(e ast.Expr, env map[types.Object]ast.Expr, fn ast.Node) (string, bool) {
	info := g.pk.TypesInfo
	var steps []string
	cur := e
	for {
		if t := info.TypeOf(cur); t != nil {
			if r := g.atomRoot(t); r != "" && strings.HasSuffix(pkgPathOf(t), "protogen") && len(steps) > 0 {
				rev := make([]string, len(steps))
				for i := range steps {
					rev[i] = steps[len(steps)-1-i]
				}
				return "⟨" + r + "." + strings.Join(rev, ".") + "⟩", true
			}
		}
		switch x := cur.(type) {
		case *ast.CallExpr:
			if len(x.Args) != 0 {
				return "", false
			}
			sel, ok := x.Fun.(*ast.SelectorExpr)
			if !ok {
				return "", false
			}
			steps = append(steps, sel.Sel.Name+"()")
			cur = sel.X
		case *ast.SelectorExpr:
			steps = append(steps, x.Sel.Name)
			cur = x.X
		case *ast.ParenExpr:
			cur = x.X
		case *ast.Ident:
			obj := info.Uses[x]
			if bound, ok := env[obj]; ok && bound != nil {
				cur = bound
				env = nil
				continue
			}
			if v, ok := obj.(*types.Var); ok {
				if rhs := g.singleAssignment(v, fn); rhs != nil && g.atomRoot(v.Type()) != "" {
					cur = rhs
					continue
				}
			}
			return "", false
		default:
			return "", false
		}
	}
}

func pkgPathOf(t types.Type) string {
	if p, ok := t.(*types.Pointer); ok {
		t = p.Elem()
	}
	if nt, ok := t.(*types.Named); ok && nt.Obj().Pkg() != nil {
		return nt.Obj().Pkg().Path()
	}
	return ""
}

// singleAssignment returns the only value ever assigned to the local v in fn (declaration included), or nil.
func (g *genStr) singleAssignment(v *types.Var, fn ast.Node) ast.Expr {
	if fn == nil {
		return nil
	}
	info := g.pk.TypesInfo
	var rhs ast.Expr
	n := 0
	is := func(e ast.Expr) bool {
		id, ok := e.(*ast.Ident)
		return ok && (info.Defs[id] == types.Object(v) || info.Uses[id] == types.Object(v))
	}
	ast.Inspect(fn, func(x ast.Node) bool {
		switch y := x.(type) {
		case *ast.AssignStmt:
			for i, l := range y.Lhs {
				if is(l) {
					n++
					if len(y.Lhs) == len(y.Rhs) {
						rhs = y.Rhs[i]
					} else {
						n += 10
					}
				}
			}
		case *ast.ValueSpec:
			for i, nm := range y.Names {
				if info.Defs[nm] == types.Object(v) && len(y.Values) == len(y.Names) {
					n++
					rhs = y.Values[i]
				}
			}
		case *ast.RangeStmt:
			if (y.Key != nil && is(y.Key)) || (y.Value != nil && is(y.Value)) {
				n += 10
			}
		case *ast.IncDecStmt:
			if is(y.X) {
				n += 10
			}
		}
		return true
	})
	if n != 1 {
		return nil
	}
	return rhs
}

// inlineHelper evaluates a call of a same-package function whose body is `return expr` (possibly after
// declarations of single-assignment locals) with the parameters bound to the arguments.
func (g *genStr) inlineHelper(f *types.Func, call *ast.CallExpr, env map[types.Object]ast.Expr, fn ast.Node) (string, bool) {
	var fd *ast.FuncDecl
	for _, file := range g.pk.Syntax {
		for _, d := range file.Decls {
			if x, ok := d.(*ast.FuncDecl); ok && g.pk.TypesInfo.Defs[x.Name] == types.Object(f) {
				fd = x
			}
		}
	}
	if fd == nil || fd.Body == nil || len(fd.Body.List) == 0 {
		return "", false
	}
	ret, ok := fd.Body.List[len(fd.Body.List)-1].(*ast.ReturnStmt)
	if !ok || len(ret.Results) != 1 {
		return "", false
	}
	nenv := map[types.Object]ast.Expr{}
	ai := 0
	if fd.Type.Params != nil {
		for _, p := range fd.Type.Params.List {
			for _, nm := range p.Names {
				if ai < len(call.Args) {
					// bind to the caller's expression with the caller's bindings substituted lazily: keep a closure via wrapper
					nenv[g.pk.TypesInfo.Defs[nm]] = g.substitute(call.Args[ai], env)
				}
				ai++
			}
		}
	}
	return g.eval(ret.Results[0], nenv, fd)
}

// substitute resolves identifiers of e that are bound in env (one level), so that an argument can be
// evaluated later without the caller's environment.
func (g *genStr) substitute(e ast.Expr, env map[types.Object]ast.Expr) ast.Expr {
	if len(env) == 0 {
		return e
	}
	switch x := e.(type) {
	case *ast.Ident:
		if b, ok := env[g.pk.TypesInfo.Uses[x]]; ok && b != nil {
			return b
		}
	case *ast.SelectorExpr:
		if id, ok := x.X.(*ast.Ident); ok {
			if b, ok := env[g.pk.TypesInfo.Uses[id]]; ok && b != nil {
				return &ast.SelectorExpr{X: b, Sel: x.Sel}
			}
		}
	}
	return e
}

const canonicalRPCName = "Quote(/⟨Service.Desc.FullName()⟩/⟨Method.Desc.Name()⟩)"

func c17r2(c *an.Ctx) {
	pk := genPkg(c)
	// every place where the generator emits an RPC name -- after "Invoke(ctx, " / "NewStream(ctx, " in the client
	// stubs and as the first value of the description's `return` -- emits the same function of the descriptors:
	// the quoted "/" + service full name + "/" + method name (the proto name, not the Go-cased one).
	nCons := 0
	for _, f := range pk.Syntax {
		for _, d := range f.Decls {
			fd, ok := d.(*ast.FuncDecl)
			if !ok || fd.Body == nil {
				continue
			}
			ast.Inspect(fd.Body, func(n ast.Node) bool {
				call, ok := n.(*ast.CallExpr)
				if !ok {
					return true
				}
				sel, ok := call.Fun.(*ast.SelectorExpr)
				if !ok || sel.Sel.Name != "P" {
					return true
				}
				for i, a := range call.Args {
					s, isLit := strLit(pk, a)
					if !isLit {
						continue
					}
					isCons := strings.HasSuffix(s, "Invoke(ctx, ") || strings.HasSuffix(s, "NewStream(ctx, ")
					if s == "return " && i == 0 && len(call.Args) > 2 {
						// description case: return <name>, <encoding>{}, -- recognised by the encoding literal that follows
						if s2, ok := strLit(pk, call.Args[2]); ok && strings.HasPrefix(s2, ", ") {
							isCons = true
						}
					}
					if !isCons || i+1 >= len(call.Args) {
						continue
					}
					nCons++
					ev := &genStr{pk: pk}
					got, okEval := ev.eval(call.Args[i+1], nil, fd)
					if !okEval {
						got = "cannot evaluate " + exprString(call.Args[i+1])
					}
					c.Check(okEval && got == canonicalRPCName, fmt.Sprintf("%s | RPC name after %q is \"/\" + service full name + \"/\" + proto method name, quoted", fd.Name.Name, trimStr(s, 30)), c.P.Pos(call.Pos()), got,
						"an RPC name is emitted as "+got+" instead of "+canonicalRPCName+": the client stub and the server description can disagree (the mux answers 'unknown rpc')")
				}
				return true
			})
		}
	}
	c.Check(nCons >= 3, "generator | RPC name consumers found (Invoke, NewStream, description)", "-", fmt.Sprint(nCons), fmt.Sprintf("only %d RPC name emission sites recognised", nCons))
}

func exprString(e ast.Expr) string {
	return types.ExprString(e)
}

// ---------------------------------------------------------------------------
// R4: abstract evaluation over the two streaming flags

type flags struct{ cs, ss bool } // client-streaming, server-streaming

// evalFlagCond evaluates a condition built from method.Desc.IsStreamingClient()/IsStreamingServer(), !, &&, ||.
func evalFlagCond(e ast.Expr, f flags) (val bool, ok bool) {
	switch x := e.(type) {
	case *ast.ParenExpr:
		return evalFlagCond(x.X, f)
	case *ast.UnaryExpr:
		if x.Op == token.NOT {
			v, ok := evalFlagCond(x.X, f)
			return !v, ok
		}
	case *ast.BinaryExpr:
		l, ok1 := evalFlagCond(x.X, f)
		r, ok2 := evalFlagCond(x.Y, f)
		if !ok1 || !ok2 {
			return false, false
		}
		switch x.Op {
		case token.LAND:
			return l && r, true
		case token.LOR:
			return l || r, true
		}
	case *ast.CallExpr:
		s := exprString(x)
		if strings.HasSuffix(s, ".IsStreamingClient()") {
			return f.cs, true
		}
		if strings.HasSuffix(s, ".IsStreamingServer()") {
			return f.ss, true
		}
	}
	return false, false
}

// walkFlagBody visits the statements of a function body that execute under the flag assignment.
func walkFlagBody(stmts []ast.Stmt, f flags, visit func(ast.Stmt), undecided *bool) {
	for _, st := range stmts {
		switch x := st.(type) {
		case *ast.IfStmt:
			v, ok := evalFlagCond(x.Cond, f)
			if !ok {
				// not a flag condition: both branches are irrelevant to the shape unless they contain appends
				visit(st)
				continue
			}
			if v {
				walkFlagBody(x.Body.List, f, visit, undecided)
			} else if x.Else != nil {
				switch e := x.Else.(type) {
				case *ast.BlockStmt:
					walkFlagBody(e.List, f, visit, undecided)
				case *ast.IfStmt:
					walkFlagBody([]ast.Stmt{e}, f, visit, undecided)
				}
			}
		case *ast.BlockStmt:
			walkFlagBody(x.List, f, visit, undecided)
		case *ast.SwitchStmt:
			// a tag-less switch whose cases are flag conditions: the first case that holds, else the default
			if x.Tag != nil || x.Init != nil {
				visit(st)
				continue
			}
			var chosen, deflt *ast.CaseClause
			decidable := true
			for _, cs := range x.Body.List {
				cc := cs.(*ast.CaseClause)
				if len(cc.List) == 0 {
					deflt = cc
					continue
				}
				if chosen != nil {
					continue
				}
				for _, e := range cc.List {
					v, ok := evalFlagCond(e, f)
					if !ok {
						decidable = false
					} else if v && chosen == nil {
						chosen = cc
					}
				}
			}
			if !decidable {
				visit(st)
				continue
			}
			if chosen == nil {
				chosen = deflt
			}
			if chosen != nil {
				walkFlagBody(chosen.Body, f, visit, undecided)
			}
		default:
			visit(st)
		}
	}
}

func c17r4(c *an.Ctx) {
	pk := genPkg(c)
	all := []flags{{false, false}, {false, true}, {true, false}, {true, true}}
	name := func(f flags) string {
		return map[flags]string{{false, false}: "unary", {false, true}: "server-streaming", {true, false}: "client-streaming", {true, true}: "bidirectional"}[f]
	}
	// (1) server signature shapes
	sig := genFunc(pk, "generateServerSignature")
	type shape struct {
		args    []string // ctx | in | stream
		results int
	}
	shapes := map[flags]shape{}
	for _, f := range all {
		sh := shape{results: 1}
		und := false
		walkFlagBody(sig.Body.List, f, func(st ast.Stmt) {
			as, ok := st.(*ast.AssignStmt)
			if !ok || len(as.Lhs) != 1 {
				return
			}
			lhs := exprString(as.Lhs[0])
			rhs := exprString(as.Rhs[0])
			switch lhs {
			case "reqArgs":
				// each appended element on its own: append(reqArgs, a) or append(reqArgs, a, b)
				elems := []string{rhs}
				if call, isCall := as.Rhs[0].(*ast.CallExpr); isCall && len(call.Args) >= 2 {
					if id, isId := call.Fun.(*ast.Ident); isId && id.Name == "append" {
						elems = nil
						for _, a := range call.Args[1:] {
							elems = append(elems, exprString(a))
						}
					}
				}
				for _, el := range elems {
					switch {
					case strings.Contains(el, `d.Ident("context", "Context")`):
						sh.args = append(sh.args, "ctx")
					case strings.Contains(el, "d.InputType(method)"):
						sh.args = append(sh.args, "in")
					case strings.Contains(el, "d.ServerStreamIface(method)"):
						sh.args = append(sh.args, "stream")
					default:
						sh.args = append(sh.args, "?"+el)
					}
				}
			case "ret":
				if strings.Contains(rhs, "d.OutputType(method)") {
					sh.results = 2
				}
			}
		}, &und)
		shapes[f] = sh
	}
	// (2) the mux's classification switch, extracted from registerOne
	mpk := c.P.ByPath[c.P.ModPath+"/drpcmux"]
	if mpk == nil {
		panic(&an.Unresolved{What: "package drpcmux"})
	}
	// the function that classifies a method expression by its argument and result counts (registerOne today)
	var ro *ast.FuncDecl
	for _, f := range mpk.Syntax {
		for _, d := range f.Decls {
			fd, ok := d.(*ast.FuncDecl)
			if !ok || fd.Body == nil {
				continue
			}
			src := nodeString(fd.Body)
			if strings.Contains(src, ".NumIn()") && strings.Contains(src, ".NumOut()") && (ro == nil || fd.Name.Name == "registerOne") {
				ro = fd
			}
		}
	}
	if ro == nil {
		panic(&an.Unresolved{What: "the mux function that classifies method expressions by NumIn/NumOut"})
	}
	type muxCase struct {
		numIn   int // required NumIn(), -1 if the case does not test it
		numOut  int // required NumOut(), -1 if the case does not test it
		unitary bool
		in1     string // "In(k)" or "stream"
		in2     bool   // in2 = streamType
	}
	var cases []muxCase
	hasDefaultErr, unknownCase := false, false
	ast.Inspect(ro.Body, func(n ast.Node) bool {
		sw, ok := n.(*ast.SwitchStmt)
		if ifs, isIf := n.(*ast.IfStmt); isIf && !ok {
			// the same classification written as an if / else-if / else chain
			var clauses []ast.Stmt
			cur := ifs
			for cur != nil {
				clauses = append(clauses, &ast.CaseClause{List: []ast.Expr{cur.Cond}, Body: cur.Body.List})
				switch e := cur.Else.(type) {
				case *ast.IfStmt:
					cur = e
				case *ast.BlockStmt:
					clauses = append(clauses, &ast.CaseClause{Body: e.List})
					cur = nil
				default:
					cur = nil
				}
			}
			if len(clauses) >= 3 {
				sw, ok = &ast.SwitchStmt{Body: &ast.BlockStmt{List: clauses}}, true
			}
		}
		if !ok {
			return true
		}
		// the classification is the switch whose cases count arguments and results; other switches (argument
		// validation) are passed over
		counts := 0
		for _, st := range sw.Body.List {
			for _, e := range st.(*ast.CaseClause).List {
				src := exprString(e)
				ast.Inspect(e, func(n2 ast.Node) bool {
					if id, isId := n2.(*ast.Ident); isId {
						ast.Inspect(ro.Body, func(n3 ast.Node) bool {
							if as2, isAs := n3.(*ast.AssignStmt); isAs && len(as2.Lhs) == len(as2.Rhs) {
								for i2, lh := range as2.Lhs {
									if li, ok2 := lh.(*ast.Ident); ok2 && li.Name == id.Name {
										src += " " + exprString(as2.Rhs[i2])
									}
								}
							}
							return true
						})
					}
					return true
				})
				if strings.Contains(src, ".NumIn()") || strings.Contains(src, ".NumOut()") {
					counts++
					break
				}
			}
		}
		nonDefault := 0
		for _, st := range sw.Body.List {
			if len(st.(*ast.CaseClause).List) > 0 {
				nonDefault++
			}
		}
		if counts < 2 || counts != nonDefault || len(cases) > 0 {
			// a validation switch may mention NumOut() in one case among others: it is not the classification
			if !(counts >= 2 && counts == nonDefault) {
				return true
			}
			if len(cases) > 0 {
				return true
			}
		}
		for _, st := range sw.Body.List {
			cc := st.(*ast.CaseClause)
			if len(cc.List) == 0 {
				for _, s2 := range cc.Body {
					if ret, isRet := s2.(*ast.ReturnStmt); isRet && len(ret.Results) > 0 {
						if id, isId := ret.Results[len(ret.Results)-1].(*ast.Ident); !isId || id.Name != "nil" {
							hasDefaultErr = true
						}
					}
				}
				continue
			}
			// a case is a conjunction of NumIn() == k / NumOut() == k tests
			mc := muxCase{numIn: -1, numOut: -1}
			okCase := len(cc.List) == 1
			var conj func(e ast.Expr)
			conj = func(e ast.Expr) {
				if pe, isP := e.(*ast.ParenExpr); isP {
					conj(pe.X)
					return
				}
				be, ok := e.(*ast.BinaryExpr)
				if !ok {
					okCase = false
					return
				}
				if be.Op == token.LAND {
					conj(be.X)
					conj(be.Y)
					return
				}
				if be.Op != token.EQL {
					okCase = false
					return
				}
				k := -1
				if tv, ok := mpk.TypesInfo.Types[be.Y]; ok && tv.Value != nil {
					v, _ := constant.Int64Val(tv.Value)
					k = int(v)
				}
				l := exprString(be.X)
				// a local that holds the count: numOut := mt.NumOut()
				if id, isId := be.X.(*ast.Ident); isId {
					ast.Inspect(ro.Body, func(n2 ast.Node) bool {
						if as2, isAs := n2.(*ast.AssignStmt); isAs && len(as2.Lhs) == len(as2.Rhs) {
							for i2, lh := range as2.Lhs {
								if li, ok2 := lh.(*ast.Ident); ok2 && li.Name == id.Name {
									l = exprString(as2.Rhs[i2])
								}
							}
						}
						return true
					})
				}
				switch {
				case k >= 0 && strings.HasSuffix(l, ".NumOut()"):
					mc.numOut = k
				case k >= 0 && strings.HasSuffix(l, ".NumIn()"):
					mc.numIn = k
				default:
					okCase = false
				}
			}
			if okCase {
				conj(cc.List[0])
			}
			if !okCase || (mc.numIn < 0 && mc.numOut < 0) {
				unknownCase = true
				continue
			}
			for _, s2 := range cc.Body {
				as, ok := s2.(*ast.AssignStmt)
				if !ok || len(as.Lhs) != 1 {
					continue
				}
				// which field of the per-RPC record is set (whatever the local holding it is called)
				field := ""
				if se, isSel := as.Lhs[0].(*ast.SelectorExpr); isSel {
					field = se.Sel.Name
				}
				rhs := exprString(as.Rhs[0])
				isStreamType := func(e ast.Expr) bool {
					id, isId := e.(*ast.Ident)
					return isId && id.Name == "streamType"
				}
				// mt.In(k) with k a literal or a named constant
				inIndex := func(e ast.Expr) (int, bool) {
					call, isCall := e.(*ast.CallExpr)
					if !isCall || len(call.Args) != 1 {
						return 0, false
					}
					se, isSel := call.Fun.(*ast.SelectorExpr)
					if !isSel || se.Sel.Name != "In" {
						return 0, false
					}
					if tv, ok := mpk.TypesInfo.Types[call.Args[0]]; ok && tv.Value != nil {
						v, _ := constant.Int64Val(tv.Value)
						return int(v), true
					}
					return 0, false
				}
				switch field {
				case "unitary":
					mc.unitary = rhs == "true"
				case "in1":
					if isStreamType(as.Rhs[0]) {
						mc.in1 = "stream"
					} else if k, ok := inIndex(as.Rhs[0]); ok {
						mc.in1 = fmt.Sprintf("In(%d)", k)
					}
				case "in2":
					mc.in2 = isStreamType(as.Rhs[0])
				}
			}
			cases = append(cases, mc)
		}
		return false
	})
	if !c.Check(len(cases) >= 3 && hasDefaultErr && !unknownCase, "registerOne | classification switch extracted", c.P.Pos(ro.Pos()), fmt.Sprint(cases), "cannot extract the mux's method classification switch (three or more cases on NumIn/NumOut and a default that returns an error)") {
		return
	}
	classify := func(sh shape) (muxCase, bool) {
		numIn := 1 + len(sh.args) // method expression: receiver first
		for _, mc := range cases {
			if (mc.numOut < 0 || sh.results == mc.numOut) && (mc.numIn < 0 || numIn == mc.numIn) {
				return mc, true
			}
		}
		return muxCase{}, false
	}
	// (3) what the receiver closure asserts per assignment
	rcv := genFunc(pk, "generateServerReceiver")
	for _, f := range all {
		sh := shapes[f]
		mc, ok := classify(sh)
		key := "shape " + name(f)
		if !c.Check(ok, key+" | generated method expression is recognised by the mux", c.P.Pos(sig.Pos()), fmt.Sprintf("args %v, %d results", sh.args, sh.results),
			fmt.Sprintf("the mux's switch has no case for the generated %s shape (receiver + %v, %d results): registration fails with 'unknown method type'", name(f), sh.args, sh.results)) {
			continue
		}
		// which parameter the mux takes as the request message
		wantMsg := ""
		for i, a := range sh.args {
			if a == "in" {
				wantMsg = fmt.Sprintf("In(%d)", i+1)
			}
		}
		if wantMsg == "" {
			wantMsg = "stream"
		}
		c.Check(mc.in1 == wantMsg, key+" | the mux takes the request from the parameter that holds it", c.P.Pos(ro.Pos()), mc.in1,
			fmt.Sprintf("for the %s shape the mux reads the request type from %s but the generated signature has it at %s", name(f), mc.in1, wantMsg))
		c.Check(mc.unitary == (sh.results == 2), key+" | unary flag matches the result count", c.P.Pos(ro.Pos()), "", "the mux's unitary flag disagrees with the generated method's results")
		// receiver closure: collect the emitted argument pieces under this assignment
		var pieces []string
		returnsValue := false
		n := 1
		und := false
		walkFlagBody(rcv.Body.List, f, func(st ast.Stmt) {
			switch x := st.(type) {
			case *ast.IncDecStmt:
				n++
			case *ast.ExprStmt:
				call, ok := x.X.(*ast.CallExpr)
				if !ok {
					return
				}
				src := exprString(call)
				switch {
				case strings.Contains(src, `"ctx,"`):
					pieces = append(pieces, "ctx")
				case strings.Contains(src, "d.InputType(method)") && strings.Contains(src, `"in"`):
					pieces = append(pieces, fmt.Sprintf("in%d.(*In)", n))
				case strings.Contains(src, "d.ServerStreamImpl(method)"):
					pieces = append(pieces, fmt.Sprintf("in%d.(Stream)", n))
				case strings.Contains(src, `"return srv.("`):
					returnsValue = true
				}
			}
		}, &und)
		// expected from the signature + mux: in1 is the message iff the mux's in1 is not the stream; the stream is in2 when there is a message input, else in1
		var want []string
		for _, a := range sh.args {
			switch a {
			case "ctx":
				want = append(want, "ctx")
			case "in":
				want = append(want, "in1.(*In)")
			case "stream":
				if mc.in1 == "stream" {
					want = append(want, "in1.(Stream)")
				} else {
					want = append(want, "in2.(Stream)")
				}
			}
		}
		c.Check(strings.Join(pieces, ",") == strings.Join(want, ","), key+" | receiver closure passes "+strings.Join(want, ", "), c.P.Pos(rcv.Pos()), strings.Join(pieces, ","),
			fmt.Sprintf("for the %s shape the generated receiver passes (%s) but the signature and the mux's dispatch require (%s): the type assertion fails at the first call", name(f), strings.Join(pieces, ","), strings.Join(want, ",")))
		c.Check(returnsValue == (sh.results == 2), key+" | receiver returns the response iff the method has one", c.P.Pos(rcv.Pos()), "", "the receiver closure's return form does not match the method's results")
	}
	// HandleRPC: in1 = message unless data.in1 == streamType; in2 = stream always. Decided on the resolved program
	// (not on the text), so that it holds whether the input is prepared in place or in a helper.
	{
		hfn := c.Fn("drpcmux", "(*Mux).HandleRPC")
		a := A(c)
		in1F := a.field("drpcmux", "rpcData", "in1")
		var recvCall *ssa.Call
		an.Instrs(hfn, func(in ssa.Instruction) {
			call, isCall := in.(*ssa.Call)
			if !isCall || call.Common().IsInvoke() || call.Common().StaticCallee() != nil {
				return
			}
			if p := an.PathOf(call.Common().Value); p.Last() != nil && nameOf(p.Last()) == "receiver" {
				recvCall = call
			}
		})
		// the guard `data.in1 ==/!= streamType` in a guard list: +1 equal, -1 different, 0 not tested
		in1Test := func(gs []an.Guard) int {
			for _, g := range gs {
				cmp, ok := an.CmpOf(g)
				if !ok || (cmp.Op != token.EQL && cmp.Op != token.NEQ) {
					continue
				}
				isIn1 := func(v ssa.Value) bool { return isLoadOfField(an.Resolve(v), in1F) || isLoadOfField(v, in1F) }
				isST := func(v ssa.Value) bool {
					u, ok := an.Resolve(v).(*ssa.UnOp)
					if !ok || u.Op != token.MUL {
						return false
					}
					gl, ok := u.X.(*ssa.Global)
					return ok && gl.Name() == "streamType"
				}
				if (isIn1(cmp.X) && isST(cmp.Y)) || (isIn1(cmp.Y) && isST(cmp.X)) {
					if cmp.Op == token.EQL {
						return 1
					}
					return -1
				}
			}
			return 0
		}
		isStreamParam := func(v ssa.Value) bool {
			v = an.Unwrap(an.Resolve(v))
			if mi, ok := v.(*ssa.MakeInterface); ok {
				v = an.Unwrap(an.Resolve(mi.X))
			}
			if ci, ok := v.(*ssa.ChangeInterface); ok {
				v = an.Unwrap(an.Resolve(ci.X))
			}
			return len(hfn.Params) >= 2 && v == ssa.Value(hfn.Params[1])
		}
		okArgs, okIn := false, true
		nSrc := 0
		if recvCall != nil && len(recvCall.Common().Args) == 4 {
			okArgs = isStreamParam(recvCall.Common().Args[3])
			for _, src := range an.SourcesWithGuards(recvCall.Common().Args[2], recvCall.Block()) {
				nSrc++
				t := in1Test(src.Guards)
				if isStreamParam(src.Val) {
					if t != 1 {
						okIn = false // the stream is passed as in1 although in1 is not (known to be) the stream type
					}
				} else if t != -1 {
					okIn = false // a message is passed as in1 although in1 may be the stream type
				}
			}
		}
		c.Check(recvCall != nil && okArgs, "Mux.HandleRPC | receiver is called with (srv, ctx, in, stream)", c.P.Pos(hfn.Pos()), "", "HandleRPC does not supply in2 = stream")
		// the request message is received exactly when in1 is not the stream type
		okRecv := false
		an.Instrs(hfn, func(in ssa.Instruction) {
			call, isCall := in.(*ssa.Call)
			if !isCall || !call.Common().IsInvoke() || call.Common().Method.Name() != "MsgRecv" {
				return
			}
			okRecv = in1Test(an.GuardsOf(call.Block())) == -1
		})
		c.Check(okIn && nSrc >= 2 && okRecv, "Mux.HandleRPC | a request message is received iff in1 is not the stream type", c.P.Pos(hfn.Pos()), "", "HandleRPC's choice between message and stream input no longer follows data.in1")
	}
	// (4) client side follows the same flags
	cm := genFunc(pk, "generateClientMethod")
	cs := genFunc(pk, "generateClientSignature")
	for _, f := range all {
		usesInvoke, usesNewStream, sendsIn := false, false, false
		und := false
		walkFlagBody(cm.Body.List, f, func(st ast.Stmt) {
			s := nodeString(st)
			if strings.Contains(s, "c.cc.Invoke(ctx, ") {
				usesInvoke = true
			}
			if strings.Contains(s, "c.cc.NewStream(ctx, ") {
				usesNewStream = true
			}
			if strings.Contains(s, "x.MsgSend(in, ") {
				sendsIn = true
			}
			if _, isRet := st.(*ast.ReturnStmt); isRet && usesInvoke {
				return
			}
		}, &und)
		hasIn := true
		walkFlagBody(cs.Body.List, f, func(st ast.Stmt) {
			if as, ok := st.(*ast.AssignStmt); ok && exprString(as.Lhs[0]) == "reqArg" && exprString(as.Rhs[0]) == `""` {
				hasIn = false
			}
		}, &und)
		key := "client " + name(f)
		unary := !f.cs && !f.ss
		c.Check(usesInvoke == unary, key+" | Invoke iff neither side streams", c.P.Pos(cm.Pos()), "", "the client stub uses Invoke for a streaming method or NewStream for a unary one")
		if !unary {
			c.Check(usesNewStream, key+" | streaming methods open a stream", c.P.Pos(cm.Pos()), "", "no NewStream call for a streaming method")
			c.Check(sendsIn == !f.cs, key+" | the request is sent up front iff the client does not stream", c.P.Pos(cm.Pos()), "", "the stub sends (or omits) the initial request contrary to the method's client-streaming flag")
		}
		c.Check(hasIn == !f.cs, key+" | stub takes an 'in' argument iff the client does not stream", c.P.Pos(cs.Pos()), "", "the client signature's request argument does not follow the client-streaming flag")
	}
}

func nodeString(n ast.Node) string {
	var sb strings.Builder
	ast.Inspect(n, func(x ast.Node) bool {
		switch y := x.(type) {
		case *ast.BasicLit:
			if y.Kind == token.STRING {
				s, _ := strconv.Unquote(y.Value)
				sb.WriteString(s)
				sb.WriteByte(' ')
			}
		case *ast.CallExpr:
			sb.WriteString(types.ExprString(y))
			sb.WriteByte(' ')
		case *ast.BinaryExpr:
			sb.WriteString(types.ExprString(y))
			sb.WriteByte(' ')
		}
		return true
	})
	return sb.String()
}

// c17r3 runs on a sub-module: every type implementing drpc.Description.
func c17r3(c *an.Ctx) {
	n := 0
	for _, pk := range c.P.Pkgs {
		if pk.Module == nil || !pk.Module.Main {
			continue
		}
		for _, f := range pk.Syntax {
			fname := c.P.Fset.Position(f.Pos()).Filename
			if !strings.HasSuffix(fname, "_drpc.pb.go") {
				continue
			}
			// collect RPC constants used by Invoke/NewStream and by Method()
			clientNames := map[string]bool{}
			descNames := map[string]bool{}
			numMethods := map[string]int{}
			cases := map[string]int{}
			for _, d := range f.Decls {
				fd, ok := d.(*ast.FuncDecl)
				if !ok || fd.Body == nil {
					continue
				}
				recv := ""
				if fd.Recv != nil && len(fd.Recv.List) > 0 {
					recv = types.ExprString(fd.Recv.List[0].Type)
				}
				switch fd.Name.Name {
				case "NumMethods":
					ast.Inspect(fd.Body, func(x ast.Node) bool {
						if r, ok := x.(*ast.ReturnStmt); ok && len(r.Results) == 1 {
							if tv, ok := pk.TypesInfo.Types[r.Results[0]]; ok && tv.Value != nil {
								v, _ := constant.Int64Val(tv.Value)
								numMethods[recv] = int(v)
							}
						}
						return true
					})
				case "Method":
					ast.Inspect(fd.Body, func(x ast.Node) bool {
						if cc, ok := x.(*ast.CaseClause); ok && len(cc.List) > 0 {
							cases[recv]++
							for _, st := range cc.Body {
								if r, ok := st.(*ast.ReturnStmt); ok && len(r.Results) > 0 {
									if s, ok := strLit(pk, r.Results[0]); ok {
										descNames[s] = true
									}
								}
							}
						}
						return true
					})
				default:
					ast.Inspect(fd.Body, func(x ast.Node) bool {
						call, ok := x.(*ast.CallExpr)
						if !ok {
							return true
						}
						if sel, ok := call.Fun.(*ast.SelectorExpr); ok && (sel.Sel.Name == "Invoke" || sel.Sel.Name == "NewStream") && len(call.Args) >= 2 {
							if s, ok := strLit(pk, call.Args[1]); ok {
								clientNames[s] = true
							}
						}
						return true
					})
				}
			}
			for recv, nm := range numMethods {
				n++
				c.Check(cases[recv] == nm, fmt.Sprintf("%s | %s.NumMethods == number of Method cases", shortFile(fname), recv), c.P.Pos(f.Pos()), "", fmt.Sprintf("NumMethods returns %d but Method has %d cases", nm, cases[recv]))
			}
			var names []string
			for s := range clientNames {
				names = append(names, s)
			}
			sort.Strings(names)
			for _, s := range names {
				n++
				c.Check(descNames[s], fmt.Sprintf("%s | client RPC %s is served by a description", shortFile(fname), s), c.P.Pos(f.Pos()), "", "the client stub calls "+s+" but no description in the file registers that name")
			}
			for s := range descNames {
				c.Check(clientNames[s], fmt.Sprintf("%s | described RPC %s has a client stub with the same name", shortFile(fname), s), c.P.Pos(f.Pos()), "", "the description registers "+s+" but no client stub calls it")
			}
		}
	}
	c.Floor("generated-file obligations", 1, n)
}

func shortFile(s string) string {
	if i := strings.LastIndex(s, "/"); i >= 0 {
		return s[i+1:]
	}
	return s
}

// c17r5: a helper whose result joins the service's and the method's Go names must escape the joining
// character in both, otherwise (Foo, Bar_Baz) and (Foo_Bar, Baz) generate the same identifier.
func c17r5(c *an.Ctx) {
	pk := genPkg(c)
	n := 0
	protoNamed := func(e ast.Expr, name string) bool {
		t := pk.TypesInfo.TypeOf(e)
		if t == nil {
			return false
		}
		if p, ok := t.(*types.Pointer); ok {
			t = p.Elem()
		}
		nt, ok := t.(*types.Named)
		return ok && nt.Obj().Name() == name && nt.Obj().Pkg() != nil && strings.HasSuffix(nt.Obj().Pkg().Path(), "protogen")
	}
	// which name does a `.GoName` selector read: "service" (of a method's parent), "method", or ""
	goNameOf := func(sel *ast.SelectorExpr) string {
		if sel.Sel.Name != "GoName" {
			return ""
		}
		switch {
		case protoNamed(sel.X, "Method"):
			return "method"
		case protoNamed(sel.X, "Service"):
			return "service"
		}
		return ""
	}
	for _, f := range pk.Syntax {
		for _, d := range f.Decls {
			fd, ok := d.(*ast.FuncDecl)
			if !ok || fd.Body == nil {
				continue
			}
			// outermost string concatenations of the function
			var chains []*ast.BinaryExpr
			var visit func(x ast.Node, inChain bool)
			visit = func(root ast.Node, inChain bool) {
				ast.Inspect(root, func(x ast.Node) bool {
					be, ok := x.(*ast.BinaryExpr)
					if !ok || be.Op != token.ADD || x == root {
						return true
					}
					if !inChain {
						chains = append(chains, be)
					}
					visit(be, true)
					return false
				})
			}
			visit(fd.Body, false)
			for _, ch := range chains {
				var names []*ast.SelectorExpr
				kinds := map[string]bool{}
				ast.Inspect(ch, func(x ast.Node) bool {
					if sel, ok := x.(*ast.SelectorExpr); ok {
						if k := goNameOf(sel); k != "" {
							names = append(names, sel)
							kinds[k] = true
						}
					}
					return true
				})
				if !(kinds["service"] && kinds["method"]) {
					continue
				}
				n++
				// every occurrence of either name must be the first argument of strings.ReplaceAll(_, "_", "__")
				okAll := true
				for _, sel := range names {
					escaped := false
					ast.Inspect(ch, func(y ast.Node) bool {
						call, ok := y.(*ast.CallExpr)
						if !ok || exprString(call.Fun) != "strings.ReplaceAll" || len(call.Args) != 3 {
							return true
						}
						a1, _ := strLit(pk, call.Args[1])
						a2, _ := strLit(pk, call.Args[2])
						if call.Args[0] == ast.Expr(sel) && a1 == "_" && a2 == "__" {
							escaped = true
						}
						return true
					})
					if !escaped {
						okAll = false
					}
				}
				c.Check(okAll, fmt.Sprintf("%s | service and method names are escaped before being joined with '_'", fd.Name.Name), c.P.Pos(ch.Pos()), "",
					"the helper joins the service's and the method's Go names with '_' without escaping '_' inside them: services Foo{Bar_Baz} and Foo_Bar{Baz} in one package generate the same type name and the file does not compile")
			}
		}
	}
	c.Floor("helpers joining service and method names", 1, n)
}

// c17r6: protogen parses the plugin parameter string (ParamFunc: flags.Set) inside Options.Run, before it
// calls the generator callback. A value of a flag-bound variable that main copies before calling Run (a
// local, a by-value closure binding, a bound method value with a value receiver) is the flag's default,
// so `protolib=` and `json=` would be silently ignored and the generated code would use the wrong codec.
func c17r6(c *an.Ctx) {
	mainFn := c.Fn(c.P.ModPath+"/cmd/protoc-gen-go-drpc", "main")
	// variables whose fields (or themselves) are handed to flag.*Var
	bound := map[*ssa.Alloc]bool{}
	an.Instrs(mainFn, func(in ssa.Instruction) {
		call, ok := in.(*ssa.Call)
		if !ok {
			return
		}
		obj := an.CalleeObj(call.Common())
		if obj == nil || obj.Pkg() == nil || obj.Pkg().Path() != "flag" || !strings.HasSuffix(obj.Name(), "Var") {
			return
		}
		for _, arg := range call.Common().Args {
			if al, ok := an.PathOf(arg).Root.(*ssa.Alloc); ok {
				if _, isPtr := arg.Type().Underlying().(*types.Pointer); isPtr && al.Parent() == mainFn {
					if fs, isNamed := deref(al.Type()).(*types.Named); isNamed && fs.Obj().Name() == "FlagSet" {
						continue
					}
					bound[al] = true
				}
			}
		}
	})
	if !c.Floor("flag-bound option variables in main", 1, len(bound)) {
		return
	}
	n := 0
	an.Instrs(mainFn, func(in ssa.Instruction) {
		u, ok := in.(*ssa.UnOp)
		if !ok || u.Op != token.MUL {
			return
		}
		if al, ok := an.PathOf(u.X).Root.(*ssa.Alloc); ok && bound[al] {
			n++
			c.Bad("main | option variable "+al.Comment+" is read before Run has parsed the plugin parameters", c.At(in),
				"main copies "+an.R(u)+" before protogen.Options.Run parses the parameter string: the generator would always see the flag defaults (protolib=..., json=... ignored)")
		}
	})
	if n == 0 {
		c.Ok("main | option variables are not read before Run", c.P.Pos(mainFn.Pos()), fmt.Sprintf("%d flag-bound variable(s); the callback captures them by reference", len(bound)))
	}
	// and Run is given a callback that can see them
	nRun := 0
	an.Instrs(mainFn, func(in ssa.Instruction) {
		call, ok := in.(*ssa.Call)
		if !ok {
			return
		}
		if obj := an.CalleeObj(call.Common()); obj == nil || obj.Name() != "Run" || obj.Pkg() == nil || !strings.HasSuffix(obj.Pkg().Path(), "protogen") {
			return
		}
		nRun++
	})
	c.Floor("protogen.Options.Run calls in main", 1, nRun)
}

// c17r7: a generated name has to be the same function of (service, method) everywhere it is emitted and for every
// service of a file. A helper that remembers results in the generator (a memo keyed by less than the full identity,
// a counter, a "last service" field) can hand the second service the first one's names.
func c17r7(c *an.Ctx) {
	pkg := c.P.ModPath + "/cmd/protoc-gen-go-drpc"
	fns := must(c.P.SourceFuncs(pkg))
	isDesc := func(t types.Type) bool {
		pt, ok := t.(*types.Pointer)
		if !ok {
			return false
		}
		n, ok := pt.Elem().(*types.Named)
		if !ok || n.Obj().Pkg() == nil || !strings.HasSuffix(n.Obj().Pkg().Path(), "/protogen") {
			return false
		}
		switch n.Obj().Name() {
		case "Method", "Service", "Message":
			return true
		}
		return false
	}
	inPkg := map[*ssa.Function]bool{}
	for _, fn := range fns {
		inPkg[fn] = true
	}
	n := 0
	for _, fn := range fns {
		if fn.Parent() != nil {
			continue
		}
		sig := fn.Signature
		if sig.Results().Len() != 1 {
			continue
		}
		if b, ok := sig.Results().At(0).Type().Underlying().(*types.Basic); !ok || b.Kind() != types.String {
			continue
		}
		hasDesc := false
		for i := 0; i < sig.Params().Len(); i++ {
			if isDesc(sig.Params().At(i).Type()) {
				hasDesc = true
			}
		}
		if !hasDesc {
			continue
		}
		n++
		c.Analysed(fn)
		// the helper and the package functions it calls
		seen := map[*ssa.Function]bool{}
		var work []*ssa.Function
		work = append(work, fn)
		bad := ""
		var where ssa.Instruction
		for len(work) > 0 && bad == "" {
			f := work[len(work)-1]
			work = work[:len(work)-1]
			if seen[f] {
				continue
			}
			seen[f] = true
			for _, g := range an.WithAnon(f) {
				an.Instrs(g, func(in ssa.Instruction) {
					if bad != "" {
						return
					}
					stateful := func(v ssa.Value) bool {
						// reached through the receiver / a package variable (not through a descriptor argument)
						root := an.PathOf(v).Root
						if u, ok := v.(*ssa.UnOp); ok {
							root = an.PathOf(u.X).Root
						}
						switch r := root.(type) {
						case *ssa.Global:
							return true
						case *ssa.Parameter:
							return !isDesc(r.Type()) && r.Parent().Signature.Recv() != nil && r == r.Parent().Params[0]
						}
						return false
					}
					// a memo keyed by the descriptor itself (the pointer identifies service and method) is still a
					// function of the argument
					byDescriptor := func(key ssa.Value) bool {
						p, isParam := key.(*ssa.Parameter)
						return isParam && isDesc(p.Type())
					}
					switch x := in.(type) {
					case *ssa.MapUpdate:
						if stateful(x.Map) && !byDescriptor(x.Key) {
							bad, where = "writes a map kept in the generator under a key that is not the descriptor itself", in
						}
					case *ssa.Lookup:
						if _, isMap := x.X.Type().Underlying().(*types.Map); isMap && stateful(x.X) && !byDescriptor(x.Index) {
							bad, where = "reads a map kept in the generator under a key that is not the descriptor itself", in
						}
					case *ssa.Store:
						if fa, ok := x.Addr.(*ssa.FieldAddr); ok && stateful(fa) {
							bad, where = "assigns a field of the generator", in
						}
						if _, ok := x.Addr.(*ssa.Global); ok {
							bad, where = "assigns a package variable", in
						}
					case ssa.CallInstruction:
						if callee := x.Common().StaticCallee(); callee != nil && inPkg[callee] {
							work = append(work, callee)
						}
					}
				})
			}
		}
		pos := c.P.Pos(fn.Pos())
		if where != nil {
			pos = c.At(where)
		}
		c.Check(bad == "", an.ShortFunc(fn)+" | the name is a function of the descriptor arguments only", pos, "",
			"a helper that computes a generated name "+bad+": a second service or method can get a name computed for another one")
	}
	c.Floor("name helpers of the generator", 1, n)
}
