// Command mutgen lists classic single-site mutations of the non-test Go files
// under a repository as JSON (file, byte range, replacement). It is a
// development aid for measuring which test-surviving small edits the checks
// report (tools/sweep.py); no check depends on it.
package main

import (
	"encoding/json"
	"fmt"
	"go/ast"
	"go/parser"
	"go/token"
	"os"
	"path/filepath"
	"sort"
	"strings"
)

type mutation struct {
	File string `json:"file"`
	Line int    `json:"line"`
	Func string `json:"func"`
	Op   string `json:"op"`
	Off  int    `json:"off"`
	End  int    `json:"end"`
	New  string `json:"new"`
	Old  string `json:"old"`
}

func main() {
	root := os.Args[1]
	var dirs []string
	for _, d := range os.Args[2:] {
		dirs = append(dirs, d)
	}
	var out []mutation
	for _, d := range dirs {
		ents, err := os.ReadDir(filepath.Join(root, d))
		if err != nil {
			fmt.Fprintln(os.Stderr, err)
			os.Exit(2)
		}
		for _, e := range ents {
			n := e.Name()
			if e.IsDir() || !strings.HasSuffix(n, ".go") || strings.HasSuffix(n, "_test.go") || strings.HasSuffix(n, ".pb.go") || n == "doc.go" {
				continue
			}
			out = append(out, mutateFile(root, filepath.Join(d, n))...)
		}
	}
	sort.SliceStable(out, func(i, j int) bool {
		if out[i].File != out[j].File {
			return out[i].File < out[j].File
		}
		return out[i].Off < out[j].Off
	})
	b, _ := json.MarshalIndent(out, "", " ")
	os.Stdout.Write(b)
}

func mutateFile(root, rel string) []mutation {
	src, err := os.ReadFile(filepath.Join(root, rel))
	if err != nil {
		panic(err)
	}
	fset := token.NewFileSet()
	f, err := parser.ParseFile(fset, rel, src, parser.ParseComments)
	if err != nil {
		panic(err)
	}
	var out []mutation
	off := func(p token.Pos) int { return fset.Position(p).Offset }
	for _, decl := range f.Decls {
		fd, ok := decl.(*ast.FuncDecl)
		if !ok || fd.Body == nil {
			continue
		}
		fname := fd.Name.Name
		if fd.Recv != nil && len(fd.Recv.List) == 1 {
			t := fd.Recv.List[0].Type
			if st, ok := t.(*ast.StarExpr); ok {
				t = st.X
			}
			if ix, ok := t.(*ast.IndexExpr); ok {
				t = ix.X
			}
			if id, ok := t.(*ast.Ident); ok {
				fname = id.Name + "." + fname
			}
		}
		if fname == "String" || strings.HasSuffix(fname, ".String") || strings.HasSuffix(fname, ".log") || strings.HasSuffix(fname, ".Log") {
			continue
		}
		lastIsErr := false
		if fd.Type.Results != nil && len(fd.Type.Results.List) > 0 {
			l := fd.Type.Results.List[len(fd.Type.Results.List)-1]
			if id, ok := l.Type.(*ast.Ident); ok && id.Name == "error" {
				lastIsErr = true
			}
		}
		add := func(op string, s, e token.Pos, repl string) {
			o, en := off(s), off(e)
			out = append(out, mutation{File: rel, Line: fset.Position(s).Line, Func: fname, Op: op, Off: o, End: en, New: repl, Old: string(src[o:en])})
		}
		skipCall := func(e ast.Expr) bool {
			// logging / tracing only
			s := string(src[off(e.Pos()):off(e.End())])
			return strings.Contains(s, ".log(") || strings.HasPrefix(s, "drpcdebug.") || strings.Contains(s, "trace.") || strings.Contains(s, "Log(")
		}
		ast.Inspect(fd.Body, func(n ast.Node) bool {
			switch x := n.(type) {
			case *ast.FuncLit:
				lastIsErr = lastIsErr && false
			case *ast.IfStmt:
				add("cond-neg", x.Cond.Pos(), x.Cond.End(), "!("+string(src[off(x.Cond.Pos()):off(x.Cond.End())])+")")
			case *ast.ForStmt:
				if x.Cond != nil {
					add("cond-neg", x.Cond.Pos(), x.Cond.End(), "!("+string(src[off(x.Cond.Pos()):off(x.Cond.End())])+")")
				}
			case *ast.BinaryExpr:
				repl := map[token.Token]string{token.LSS: "<=", token.LEQ: "<", token.GTR: ">=", token.GEQ: ">", token.EQL: "!=", token.NEQ: "==",
					token.LAND: "||", token.LOR: "&&", token.ADD: "-", token.SUB: "+"}
				if r, ok := repl[x.Op]; ok {
					op := "rel"
					switch x.Op {
					case token.LAND, token.LOR:
						op = "logic"
					case token.ADD, token.SUB:
						op = "arith"
					}
					add(op, x.OpPos, x.OpPos+token.Pos(len(x.Op.String())), r)
				}
			case *ast.BasicLit:
				if x.Kind == token.INT && !strings.HasPrefix(x.Value, "0x") && len(x.Value) < 6 {
					var v int
					if _, err := fmt.Sscanf(x.Value, "%d", &v); err == nil {
						add("const+1", x.Pos(), x.End(), fmt.Sprint(v+1))
						if v > 0 {
							add("const-1", x.Pos(), x.End(), fmt.Sprint(v-1))
						}
					}
				}
			case *ast.ExprStmt:
				if !skipCall(x.X) {
					add("del-call", x.Pos(), x.End(), "")
				}
			case *ast.AssignStmt:
				if x.Tok != token.DEFINE {
					add("del-assign", x.Pos(), x.End(), "")
				}
			case *ast.IncDecStmt:
				add("del-incdec", x.Pos(), x.End(), "")
			case *ast.DeferStmt:
				if !skipCall(x.Call) {
					add("del-defer", x.Pos(), x.End(), "")
				}
			case *ast.GoStmt:
				add("del-go", x.Pos(), x.End(), "")
			case *ast.SendStmt:
				add("del-send", x.Pos(), x.End(), "")
			case *ast.BranchStmt:
				if x.Label == nil && (x.Tok == token.BREAK || x.Tok == token.CONTINUE) {
					add("del-branch", x.Pos(), x.End(), "")
				}
			case *ast.ReturnStmt:
				if lastIsErr && len(x.Results) > 0 {
					l := x.Results[len(x.Results)-1]
					if id, ok := l.(*ast.Ident); ok && id.Name != "nil" {
						add("ret-nil", l.Pos(), l.End(), "nil")
					} else if _, ok := l.(*ast.CallExpr); ok {
						add("ret-nil", l.Pos(), l.End(), "nil")
					}
				}
			}
			return true
		})
	}
	return out
}
