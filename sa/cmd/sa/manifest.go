package main

import (
	"encoding/json"
	"fmt"
	"os"
	"strings"

	"verif/sa/internal/rules"
)

// all properties of /verif/properties.jsonl, in order
var allProps = []string{"C01", "C02", "C03", "C04", "C05", "C06", "C07", "C08", "C09", "C10", "C11", "C12", "C13", "C14", "C15", "C16", "C17", "C18", "C19"}

func cmdManifest() int {
	type check struct {
		PropertyID string         `json:"property_id"`
		QuickCmd   string         `json:"quick_cmd"`
		Thorough   string         `json:"thorough_cmd"`
		Evidence   string         `json:"evidence_file"`
		Replay     string         `json:"replay_cmd_template"`
		Engine     string         `json:"engine"`
		Level      map[string]any `json:"level_claimed"`
		LevelNote  string         `json:"level_note"`
		Technique  string         `json:"technique"`
	}
	var checks []check
	var na []map[string]string
	var served []string
	for _, id := range allProps {
		p := rules.Get(id)
		if p == nil || len(p.Rules) == 0 {
			na = append(na, map[string]string{"property_id": id, "reason": "no static rule set is implemented for this property yet (build in progress; see DESIGN.md section 5 for the planned structural clauses)"})
			continue
		}
		served = append(served, id)
		var ruleIDs []string
		var ruleDocs []string
		for _, r := range rules.ResolvedRules(p) {
			ruleIDs = append(ruleIDs, r.ID)
			ruleDocs = append(ruleDocs, r.ID+": "+r.Doc)
		}
		text := "Static analysis decides structural NECESSARY conditions of " + id + " on every path of the current source (not the behaviour itself): " + p.Explanation +
			" Level 'other': a green check means these mechanism clauses are intact for all inputs/schedules; it does not prove the behavioural statement." +
			" Rules evaluated (every obligation is keyed by rule + resolved construct): " + strings.Join(ruleDocs, " | ")
		checks = append(checks, check{
			PropertyID: id,
			QuickCmd:   "./check " + id + " quick",
			Thorough:   "./check " + id + " thorough",
			Evidence:   "/verif/evidence/" + id + ".json",
			Replay:     "./bin/sa explain {path}",
			Engine:     "sa",
			Level:      map[string]any{"category": "other", "text": text, "design_ref": "DESIGN.md section 5, " + id},
			LevelNote:  "NOT decided: " + p.NotDecided + " Assumes: " + strings.Join(p.Assumptions, "; ") + ". Trusted base: go1.26.8 type checker and go list, x/tools v0.50.0 go/ssa, the analyser's own rule tables (kept honest by the mutation corpus /verif/sa/mutants and by floors/anchors that fail closed as UNDECIDED).",
			Technique:  p.Technique + " (rules " + strings.Join(ruleIDs, ", ") + ")",
		})
	}
	m := map[string]any{
		"version":   1,
		"setup_cmd": "cd /verif/sa && PATH=/opt/veriftools/go1.26.8/bin:$PATH GOTOOLCHAIN=local GOFLAGS=-mod=mod GOPROXY=off GOSUMDB=off GOWORK=off go build -o /verif/bin/sa ./cmd/sa",
		"hooks": map[string]any{
			"guard":            "verif",
			"enable":           "no hooks: static analysis reads the source and needs no instrumentation; nothing in /repo is guarded by the tag",
			"baseline_off_cmd": "for m in $(cat /w/out/gomods.txt); do MF=$(cd /repo/$m && . /w/out/goenv.sh && gomodflag); (cd /repo/$m && go test $MF -json -vet=off -count=1 -timeout 25m ./...); done",
			"source_commits":   []string{},
			"add_only":         true,
		},
		"engines": []map[string]any{{
			"name":              "sa",
			"path":              "/verif/sa",
			"serves_properties": served,
			"kind_free_text":    "custom static analyser over go/types + go/ssa (x/tools v0.50.0): path-sensitive lockset and typestate dataflow, guard dominance, value flow, who-may-call/write queries, codec layout extraction, compiler bounds-check-elimination oracle",
		}},
		"checks":         checks,
		"not_applicable": na,
		"notes":          "All claims are level 'other': structural necessary conditions decided statically for every path/input/schedule; the behavioural statements themselves are outside static reach (DESIGN.md section 1). Exit 2 + 'UNDECIDED' means the analyser could not decide (unresolved anchor, load error) and is never a VIOLATION. Known findings and repaired defects: /verif/known_findings.txt.",
	}
	if na == nil {
		m["not_applicable"] = []map[string]string{}
	}
	b, _ := json.MarshalIndent(m, "", " ")
	fmt.Println(string(b))
	_ = os.Stdout
	return 0
}
