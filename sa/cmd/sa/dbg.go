package main

import (
	"flag"
	"fmt"
	"os"

	"golang.org/x/tools/go/ssa"

	"verif/sa/internal/an"
)

// cmdRetCases prints the return cases of a function (debugging aid).
func cmdRetCases(args []string) int {
	fs := flag.NewFlagSet("retcases", flag.ExitOnError)
	pkg := fs.String("pkg", "", "")
	fnName := fs.String("fn", "", "")
	repo := fs.String("repo", "/repo", "")
	fs.Parse(args)
	p, err := an.Load(an.Config{Dir: *repo, Patterns: []string{"./..."}, GOOS: "linux", GOARCH: "amd64"})
	if err != nil {
		fmt.Fprintln(os.Stderr, err)
		return 2
	}
	fn, err := p.Func(*pkg, *fnName)
	if err != nil {
		fmt.Fprintln(os.Stderr, err)
		return 2
	}
	for _, rc := range an.ReturnCases(fn) {
		fmt.Printf("ret %s at=%v\n", p.InstrPos(rc.Ret), rc.At)
		for i, v := range rc.Vals {
			fmt.Printf("   [%d] %s\n", i, an.Render(v, 3))
		}
		for _, g := range rc.Guards {
			pr, _ := an.FlagPreds(g)
			fmt.Printf("   guard %v %s  [%T] flagPreds=%v\n", g.True, an.Render(g.Cond, 3), g.Cond, pr)
		}
	}
	return 0
}

// cmdBounds prints, for every index / slice instruction of a function, whether the guard prover shows it in range.
func cmdBounds(args []string) int {
	fs := flag.NewFlagSet("bounds", flag.ExitOnError)
	pkg := fs.String("pkg", "", "")
	fnName := fs.String("fn", "", "")
	repo := fs.String("repo", "/repo", "")
	fs.Parse(args)
	p, err := an.Load(an.Config{Dir: *repo, Patterns: []string{"./..."}, GOOS: "linux", GOARCH: "amd64"})
	if err != nil {
		fmt.Fprintln(os.Stderr, err)
		return 2
	}
	fn, err := p.Func(*pkg, *fnName)
	if err != nil {
		fmt.Fprintln(os.Stderr, err)
		return 2
	}
	an.Instrs(fn, func(in ssa.Instruction) {
		switch x := in.(type) {
		case *ssa.IndexAddr, *ssa.Index, *ssa.Slice:
			ok, why := an.ProveInBounds(in, 64)
			fmt.Printf("%-28s %-40s %v  %s\n", p.InstrPos(in), in.String(), ok, why)
		case *ssa.MakeSlice:
			ok, why := an.ProveMake(x, 64)
			fmt.Printf("%-28s %-40s %v  %s\n", p.InstrPos(in), in.String(), ok, why)
			if os.Getenv("SA_BDEBUG") != "" {
				fmt.Println(an.DebugMake(x, 64))
			}
		}
	})
	return 0
}
