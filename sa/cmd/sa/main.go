// Command sa is the static analyser that decides the structural clauses of the
// drpc properties C01..C19. See /verif/DESIGN.md.
package main

import (
	"bytes"
	"encoding/json"
	"flag"
	"fmt"
	"golang.org/x/tools/go/packages"
	"os"
	"os/exec"
	"path/filepath"
	"sort"
	"strconv"
	"strings"
	"sync"
	"time"

	"verif/sa/internal/an"
	"verif/sa/internal/rules"
)

func main() {
	if len(os.Args) < 2 {
		usage()
	}
	switch os.Args[1] {
	case "check":
		os.Exit(cmdCheck(os.Args[2:]))
	case "run-config":
		os.Exit(cmdRunConfig(os.Args[2:]))
	case "explain":
		os.Exit(cmdExplain(os.Args[2:]))
	case "dump":
		os.Exit(cmdDump(os.Args[2:]))
	case "manifest":
		os.Exit(cmdManifest())
	case "dump-funcs":
		os.Exit(cmdDumpFuncs(os.Args[2:]))
	case "retcases":
		os.Exit(cmdRetCases(os.Args[2:]))
	case "bounds":
		os.Exit(cmdBounds(os.Args[2:]))
	case "norm":
		os.Exit(cmdNorm(os.Args[2:]))
	case "list":
		for _, id := range rules.IDs() {
			p := rules.Get(id)
			fmt.Printf("%s: %d rules\n", id, len(p.Rules))
			for _, r := range rules.ResolvedRules(p) {
				fmt.Printf("   %-9s %s\n", r.ID, r.Doc)
			}
		}
		os.Exit(0)
	default:
		usage()
	}
}

func usage() {
	fmt.Fprintln(os.Stderr, "usage: sa check -prop Cxx -tier quick|thorough [-repo /repo] [-verif /verif] [-rule id]\n       sa explain <violations.json>\n       sa dump -pkg p -fn name\n       sa list")
	os.Exit(2)
}

type cfgSpec struct {
	Scope  string `json:"scope"` // main | sub:<dir>
	Dir    string `json:"dir"`
	GOOS   string `json:"goos"`
	GOARCH string `json:"goarch"`
	Tags   string `json:"tags"`
}

func (c cfgSpec) config() an.Config {
	return an.Config{Dir: c.Dir, Patterns: []string{"./..."}, GOOS: c.GOOS, GOARCH: c.GOARCH, Tags: c.Tags}
}

func (c cfgSpec) name() string {
	t := c.Tags
	if t == "" {
		t = "-"
	}
	return fmt.Sprintf("%s:%s/%s:%s", c.Scope, c.GOOS, c.GOARCH, t)
}

func scopesOf(prop *rules.Property, tier string) map[string]bool {
	out := map[string]bool{}
	for _, r := range rules.ResolvedRules(prop) {
		if r.Tier == "thorough" && tier != "thorough" {
			continue
		}
		sc := r.Scope
		if sc == "" {
			sc = "main"
		}
		out[sc] = true
	}
	return out
}

func matrix(prop *rules.Property, tier, repo string) []cfgSpec {
	scopes := scopesOf(prop, tier)
	var out []cfgSpec
	if scopes["main"] {
		out = append(out, cfgSpec{Scope: "main", Dir: repo, GOOS: "linux", GOARCH: "amd64"})
		if tier == "thorough" {
			out = append(out,
				cfgSpec{Scope: "main", Dir: repo, GOOS: "linux", GOARCH: "amd64", Tags: "debug"},
				cfgSpec{Scope: "main", Dir: repo, GOOS: "linux", GOARCH: "386"},
				cfgSpec{Scope: "main", Dir: repo, GOOS: "windows", GOARCH: "amd64"},
				cfgSpec{Scope: "main", Dir: repo, GOOS: "darwin", GOARCH: "arm64"},
				cfgSpec{Scope: "main", Dir: repo, GOOS: "darwin", GOARCH: "arm64", Tags: "debug"},
			)
		}
	}
	var subs []string
	for sc := range scopes {
		if strings.HasPrefix(sc, "sub:") {
			subs = append(subs, sc)
		}
	}
	sort.Strings(subs)
	for _, sc := range subs {
		dir := filepath.Join(repo, strings.TrimPrefix(sc, "sub:"))
		out = append(out, cfgSpec{Scope: sc, Dir: dir, GOOS: "linux", GOARCH: "amd64"})
	}
	return out
}

func cmdCheck(args []string) int {
	fs := flag.NewFlagSet("check", flag.ExitOnError)
	propID := fs.String("prop", "", "property id")
	tier := fs.String("tier", "", "quick|thorough")
	repo := fs.String("repo", "/repo", "repository")
	verif := fs.String("verif", "/verif", "verif dir")
	only := fs.String("rule", "", "run only this rule")
	fs.Parse(args)
	if *tier == "" {
		*tier = os.Getenv("VERIF_TIER")
	}
	if *tier == "" {
		*tier = "quick"
	}
	start := time.Now()
	// watchdog: an analysis that does not finish is undecided, never a pass
	limit := 8 * time.Minute
	if *tier == "thorough" {
		limit = 40 * time.Minute
	}
	time.AfterFunc(limit, func() {
		fmt.Printf("UNDECIDED analysis of %s did not finish within %s\n", *propID, limit)
		os.Exit(2)
	})
	seed, _ := strconv.ParseInt(os.Getenv("VERIF_SEED"), 10, 64)
	prop := rules.Get(*propID)
	if prop == nil {
		fmt.Printf("UNDECIDED unknown property %q\n", *propID)
		return 2
	}
	rep := an.NewReport(prop.ID, *tier)
	specs := matrix(prop, *tier, *repo)
	if len(specs) == 1 {
		res, err := runConfig(prop, specs[0], *tier, *only)
		if err != nil {
			rep.Undecided = append(rep.Undecided, err.Error())
		} else {
			rep.Merge(res)
		}
	} else {
		// one process per configuration: several programs in one process
		// are too memory hungry.
		self, _ := os.Executable()
		results := make([]*an.Result, len(specs))
		errsOut := make([]error, len(specs))
		var wg sync.WaitGroup
		sem := make(chan struct{}, 6)
		for i, sp := range specs {
			wg.Add(1)
			go func(i int, sp cfgSpec) {
				defer wg.Done()
				sem <- struct{}{}
				defer func() { <-sem }()
				b, _ := json.Marshal(sp)
				cmd := exec.Command(self, "run-config", "-prop", prop.ID, "-tier", *tier, "-cfg", string(b), "-rule", *only)
				var out, errb bytes.Buffer
				cmd.Stdout, cmd.Stderr = &out, &errb
				if err := cmd.Run(); err != nil {
					errsOut[i] = fmt.Errorf("config %s: %v: %s", sp.name(), err, trim(errb.String(), 600))
					return
				}
				var res an.Result
				if err := json.Unmarshal(out.Bytes(), &res); err != nil {
					errsOut[i] = fmt.Errorf("config %s: bad result: %v", sp.name(), err)
					return
				}
				results[i] = &res
			}(i, sp)
		}
		wg.Wait()
		for i := range specs {
			if errsOut[i] != nil {
				rep.Undecided = append(rep.Undecided, errsOut[i].Error())
				continue
			}
			rep.Merge(results[i])
		}
	}
	if len(rep.Obls) == 0 && len(rep.Undecided) == 0 {
		rep.Undecided = append(rep.Undecided, "no obligations were generated")
	}
	assumptions := append([]string{}, prop.Assumptions...)
	assumptions = append(assumptions, "NOT DECIDED by this check: "+prop.NotDecided)
	trusted := []string{
		"go1.26.8 go list / go/types type checker", "golang.org/x/tools v0.50.0 go/packages, go/ssa, callgraph/vta",
		"the analyser /verif/sa itself (rules are keyed on resolved objects; floors and anchors fail closed as UNDECIDED)",
		"library models: sync.Mutex/Cond, io.Reader/Writer block; errs.Class.Wrap/New return non-nil",
	}
	cmdline := fmt.Sprintf("/verif/bin/sa check -prop %s -tier %s", prop.ID, *tier)
	return rep.Finish(*verif, seed, start, prop.Explanation, assumptions, trusted, cmdline)
}

func trim(s string, n int) string {
	if len(s) > n {
		return s[:n] + "…"
	}
	return s
}

func runConfig(prop *rules.Property, sp cfgSpec, tier, only string) (*an.Result, error) {
	p, err := an.Load(sp.config())
	if err != nil {
		return nil, err
	}
	rep := an.NewReport(prop.ID, tier)
	if n := p.Norm; n != nil && len(n.Unknown) > 0 {
		rep.Notes = append(rep.Notes, fmt.Sprintf("normalisation: %d function(s) outside the reviewed inventory; %d call site(s) inlined in %d round(s); %d helper declaration(s) removed", len(n.Unknown), len(n.Inlined), n.Rounds, len(n.Removed)))
		for _, s := range n.Inlined {
			rep.Notes = append(rep.Notes, "normalisation: inlined "+s)
		}
		for _, s := range n.Kept {
			rep.Notes = append(rep.Notes, "normalisation: left as written: "+s)
		}
		if n.Failed != "" {
			rep.Notes = append(rep.Notes, "normalisation: "+n.Failed)
		}
	}
	if p.Ren != nil {
		for _, s := range p.Ren.Notes {
			rep.Notes = append(rep.Notes, "rename: "+s)
		}
	}
	rules.RunRules(prop, p, rep, sp.Scope, only)
	return rep.ToResult(sp.name()), nil
}

func cmdRunConfig(args []string) int {
	fs := flag.NewFlagSet("run-config", flag.ExitOnError)
	propID := fs.String("prop", "", "")
	tier := fs.String("tier", "quick", "")
	cfg := fs.String("cfg", "", "")
	only := fs.String("rule", "", "")
	fs.Parse(args)
	prop := rules.Get(*propID)
	if prop == nil {
		fmt.Fprintln(os.Stderr, "unknown property")
		return 2
	}
	var sp cfgSpec
	if err := json.Unmarshal([]byte(*cfg), &sp); err != nil {
		fmt.Fprintln(os.Stderr, err)
		return 2
	}
	res, err := runConfig(prop, sp, *tier, *only)
	if err != nil {
		fmt.Fprintln(os.Stderr, err)
		return 2
	}
	b, _ := json.Marshal(res)
	os.Stdout.Write(b)
	return 0
}

func cmdExplain(args []string) int {
	if len(args) < 1 {
		usage()
	}
	b, err := os.ReadFile(args[0])
	if err != nil {
		fmt.Fprintln(os.Stderr, err)
		return 2
	}
	var v struct {
		Property   string           `json:"property"`
		Tier       string           `json:"tier"`
		Violations []*an.Obligation `json:"violations"`
	}
	if err := json.Unmarshal(b, &v); err != nil {
		fmt.Fprintln(os.Stderr, err)
		return 2
	}
	prop := rules.Get(v.Property)
	fmt.Printf("property %s, %d violated obligation(s) (tier %s)\n", v.Property, len(v.Violations), v.Tier)
	for _, o := range v.Violations {
		doc := ""
		if prop != nil {
			for _, r := range rules.ResolvedRules(prop) {
				if r.ID == o.Rule {
					doc = r.Doc
				}
			}
		}
		fmt.Printf("\n%s  %s\n  rule: %s\n  construct: %s\n  why: %s\n  config: %s\n", o.Pos, o.Rule, doc, o.Construct, o.Detail, o.Config)
	}
	fmt.Printf("\nre-derive on the current tree: /verif/bin/sa check -prop %s -tier %s\n", v.Property, v.Tier)
	if len(v.Violations) > 0 {
		return 1
	}
	return 0
}

func cmdDump(args []string) int {
	fs := flag.NewFlagSet("dump", flag.ExitOnError)
	pkg := fs.String("pkg", "", "")
	fnName := fs.String("fn", "", "")
	repo := fs.String("repo", "/repo", "")
	tags := fs.String("tags", "", "")
	fs.Parse(args)
	p, err := an.Load(an.Config{Dir: *repo, Patterns: []string{"./..."}, GOOS: "linux", GOARCH: "amd64", Tags: *tags})
	if err != nil {
		fmt.Fprintln(os.Stderr, err)
		return 2
	}
	fn, err := p.Func(*pkg, *fnName)
	if err != nil {
		fmt.Fprintln(os.Stderr, err)
		return 2
	}
	for _, f := range an.WithAnon(fn) {
		f.WriteTo(os.Stdout)
		fmt.Println()
	}
	return 0
}

// cmdDumpFuncs prints the function inventory of the repository (root module and nested modules).
func cmdDumpFuncs(args []string) int {
	fs := flag.NewFlagSet("dump-funcs", flag.ExitOnError)
	repo := fs.String("repo", "/repo", "")
	typed := fs.Bool("typed", false, "print the typed inventory (signatures and struct fields) instead of the names")
	fs.Parse(args)
	var dirs []string
	filepath.Walk(*repo, func(path string, fi os.FileInfo, err error) error {
		if err != nil {
			return nil
		}
		if fi.IsDir() && path != *repo && strings.HasPrefix(fi.Name(), ".") {
			return filepath.SkipDir
		}
		if !fi.IsDir() && fi.Name() == "go.mod" {
			dirs = append(dirs, filepath.Dir(path))
		}
		return nil
	})
	sort.Strings(dirs)
	fmt.Println("# function inventory of the reviewed tree: helpers that are not listed here are inlined into their callers before analysis (see norm.go)")
	fmt.Println("# regenerate with: sa dump-funcs -repo /repo > sa/internal/an/knownfuncs.txt")
	if *typed {
		for _, d := range dirs {
			p, err := an.Load(an.Config{Dir: d, Patterns: []string{"./..."}, GOOS: "linux", GOARCH: "amd64", NoNorm: true})
			if err != nil {
				fmt.Fprintln(os.Stderr, "skipped:", err) // example modules with dependencies outside the module cache
				continue
			}
			var roots []*packages.Package
			for _, pk := range p.Pkgs {
				if pk.Module != nil && pk.Module.Main {
					roots = append(roots, pk)
				}
			}
			for _, l := range an.InventoryLines(roots) {
				fmt.Println(l)
			}
		}
		return 0
	}
	for _, d := range dirs {
		l, err := an.DeclaredFuncs(d)
		if err != nil {
			fmt.Fprintln(os.Stderr, err)
			return 2
		}
		for _, k := range l {
			fmt.Println(k)
		}
	}
	return 0
}

// cmdNorm prints the normalised source of a tree (debugging aid).
func cmdNorm(args []string) int {
	fs := flag.NewFlagSet("norm", flag.ExitOnError)
	repo := fs.String("repo", "/repo", "")
	show := fs.Bool("show", false, "print the rewritten files")
	fs.Parse(args)
	ov, rep := an.BuildOverlay(an.Config{Dir: *repo, Patterns: []string{"./..."}, GOOS: "linux", GOARCH: "amd64"})
	b, _ := json.MarshalIndent(rep, "", " ")
	fmt.Println(string(b))
	if *show {
		var names []string
		for n := range ov {
			names = append(names, n)
		}
		sort.Strings(names)
		for _, n := range names {
			fmt.Printf("==== %s\n%s\n", n, ov[n])
		}
	}
	return 0
}
