#!/usr/bin/env python3
"""Runs ONE property's quick check against every behaviour-preserving change of sa/neutral/*.diff
(each applied to its own scratch copy of the current tree) and reports how many stayed silent.
Used by the thorough tier as a self-test of the checker; informational, never changes an exit code.
usage: tools/neutral_prop.py --prop Cxx [--json out.json] [--jobs N]"""
import argparse, glob, json, os, shutil, subprocess, sys, tempfile
from concurrent.futures import ThreadPoolExecutor

VERIF = os.path.dirname(os.path.dirname(os.path.abspath(__file__)))
REPO = os.environ.get("SA_REPO", "/repo")
ENV = dict(os.environ, PATH="/opt/veriftools/go1.26.8/bin:" + os.environ.get("PATH", ""), GOFLAGS="-mod=mod",
           GOPROXY="off", GOSUMDB="off", GOTOOLCHAIN="local", GOWORK="off")

def run_one(diff, prop):
    tmp = tempfile.mkdtemp(prefix="saneut-", dir=os.environ.get("TMPDIR", "/tmp"))
    try:
        repo = os.path.join(tmp, "repo")
        subprocess.run(["rsync", "-a", "--exclude", ".git", REPO + "/", repo + "/"], check=True)
        p = subprocess.run(["patch", "-p1", "-s", "-i", diff], cwd=repo, capture_output=True, text=True)
        if p.returncode != 0:
            return dict(diff=os.path.basename(diff), status="skipped", why="does not apply to the current tree")
        b = subprocess.run(["go", "build", "./..."], cwd=repo, env=ENV, capture_output=True, text=True)
        if b.returncode != 0:
            return dict(diff=os.path.basename(diff), status="skipped", why="does not compile on the current tree")
        vdir = os.path.join(tmp, "verif")
        os.makedirs(vdir)
        kf = os.path.join(VERIF, "known_findings.txt")
        if os.path.exists(kf):
            shutil.copy(kf, vdir)
        r = subprocess.run([os.path.join(VERIF, "bin/sa"), "check", "-prop", prop, "-tier", "quick", "-repo", repo, "-verif", vdir],
                           capture_output=True, text=True, env=ENV, timeout=900)
        if r.returncode == 0:
            return dict(diff=os.path.basename(diff), status="silent")
        lines = [l.strip() for l in r.stdout.splitlines() if " violated " in l or "UNDECIDED" in l]
        return dict(diff=os.path.basename(diff), status="ALARM", rc=r.returncode, why=lines[:4])
    except Exception as e:
        return dict(diff=os.path.basename(diff), status="skipped", why=str(e))
    finally:
        shutil.rmtree(tmp, ignore_errors=True)

def main():
    ap = argparse.ArgumentParser()
    ap.add_argument("--prop", required=True)
    ap.add_argument("--json")
    ap.add_argument("--jobs", type=int, default=8)
    a = ap.parse_args()
    diffs = sorted(glob.glob(os.path.join(VERIF, "sa/neutral/*.diff")))
    with ThreadPoolExecutor(a.jobs) as ex:
        res = list(ex.map(lambda d: run_one(d, a.prop), diffs))
    summary = {}
    for r in res:
        summary[r["status"]] = summary.get(r["status"], 0) + 1
        if r["status"] != "silent":
            print(r["status"], r["diff"], r.get("why", ""))
    print("summary:", summary)
    if a.json:
        json.dump(dict(summary=summary, results=res), open(a.json, "w"), indent=1)

if __name__ == "__main__":
    main()
