#!/usr/bin/env python3
"""Batch adoption of seeded changes: phase 1 confirms each one (tools/seed_verify.sh, scratch worktrees, in
parallel); phase 2 applies each confirmed patch to /repo, runs every registered quick check in parallel, and
undoes it; then stores /verif/seeded/<id>/{patch.diff,demo,README.md,meta.json}.
usage: seed_adopt_fast.py <out-dir> <adopt.list> [jobs]"""
import sys, os, subprocess, shutil, json, glob, datetime, tempfile, concurrent.futures as cf
out, lst = sys.argv[1], sys.argv[2]
jobs = int(sys.argv[3]) if len(sys.argv) > 3 else 4
V = "/verif"
items = [l.rstrip("\n").split("|", 4) for l in open(lst) if l.strip()]
# a seed confirmed by an earlier (interrupted) run is not verified again: its verify output is kept next to the list
cache = os.path.join(os.path.dirname(lst), "verify")
os.makedirs(cache, exist_ok=True)
def verify(it):
    src = os.path.join(out, it[0])
    cf_ = os.path.join(cache, it[1] + ".txt")
    if os.path.exists(cf_) and "RESULT confirmed" in open(cf_).read():
        return it, open(cf_).read()
    r = subprocess.run([V + "/tools/seed_verify.sh", src, it[3], "180s"], capture_output=True, text=True)
    open(cf_, "w").write(r.stdout)
    return it, r.stdout
ver = {}
with cf.ThreadPoolExecutor(jobs) as ex:
    for it, o in ex.map(verify, items):
        ver[it[1]] = o
        print("VERIFY", it[1], "confirmed" if "RESULT confirmed" in o else "NOT-CONFIRMED: " + o[-300:].replace("\n", " | "), flush=True)
props = [l.split(":")[0] for l in subprocess.run([V + "/bin/sa", "list"], capture_output=True, text=True).stdout.splitlines() if l[:1] == "C" and ":" in l]
def check(prop, scratch):
    r = subprocess.run([V + "/bin/sa", "check", "-prop", prop, "-tier", "quick", "-repo", "/repo", "-verif", scratch], capture_output=True, text=True)
    return prop, r.returncode, r.stdout
for it in items:
    src, sid, prop, pkgdir, needs = it
    src = os.path.join(out, src)
    if "RESULT confirmed" not in ver[sid]:
        continue
    if os.path.exists(os.path.join(V, "seeded", sid, "meta.json")) and not os.environ.get("READOPT"):
        continue
    if subprocess.run(["git", "-C", "/repo", "diff", "--quiet"]).returncode != 0:
        print("/repo is dirty"); sys.exit(2)
    subprocess.run(["git", "-C", "/repo", "apply", src + "/patch.diff"], check=True)
    scratch = tempfile.mkdtemp(prefix="seedchk.", dir="/tmp")
    shutil.copy(V + "/known_findings.txt", scratch)
    try:
        with cf.ThreadPoolExecutor(10) as ex:
            res = list(ex.map(lambda p: check(p, scratch), props))
    finally:
        subprocess.run(["git", "-C", "/repo", "checkout", "--", "."]); subprocess.run(["git", "-C", "/repo", "clean", "-fdq"])
        shutil.rmtree(scratch, ignore_errors=True)
    detected = [p for p, rc, _ in res if rc == 1]
    undecided = [p for p, rc, _ in res if rc == 2]
    rules = sorted({l.split()[1] for _, _, o in res for l in o.splitlines() if " violated " in l})
    dst = os.path.join(V, "seeded", sid); os.makedirs(dst, exist_ok=True)
    shutil.copy(src + "/patch.diff", dst)
    for f in glob.glob(src + "/*_test.go") + glob.glob(src + "/README.md"):
        shutil.copy(f, dst)
    for f in glob.glob(src + "/*/*_test.go"):
        sub = os.path.join(dst, os.path.basename(os.path.dirname(f))); os.makedirs(sub, exist_ok=True); shutil.copy(f, sub)
    v = ver[sid]
    meta = dict(id=sid, property=prop, breaks=prop, demo_package_dir=pkgdir, needs_to_manifest=needs,
        confirmed=dict(date=str(datetime.date.today()), how="tools/seed_verify.sh: scratch worktree of /repo HEAD; patch applied; go build ./...; go test ./... in main module and internal/{integration,backcompat,grpccompat,twirpcompat}: pass; demo test(s) fail with the patch and pass after reverting it",
                       verify_output=[l for l in v.splitlines() if l.startswith(("existing suite", "demo with", "demo without", "RESULT"))]),
        checks_run="tools/seed_adopt_fast.py: git -C /repo apply patch.diff; every registered quick check; git -C /repo checkout -- .",
        detected_by_properties=detected, undecided_properties=undecided, detected_by_rules=rules)
    json.dump(meta, open(os.path.join(dst, "meta.json"), "w"), indent=1)
    print("ADOPTED", sid, "owner", "DETECTED" if prop in detected else ("undecided" if prop in undecided else "MISSED"), detected, rules[:6], flush=True)
