#!/bin/bash
# usage: tools/seed_check.sh <patch.diff> [prop ...]
# Applies a seeded change to /repo, runs the quick checks (all registered, or the listed
# properties) with evidence/output redirected to a scratch dir, and undoes the change.
set -u
patch=$1; shift
cd /verif
props=("$@")
if [ ${#props[@]} -eq 0 ]; then props=($(./bin/sa list | grep -o '^C[0-9]*')); fi
if ! git -C /repo diff --quiet; then echo "/repo is dirty"; exit 2; fi
git -C /repo apply "$patch" || { echo "patch does not apply"; exit 2; }
trap 'git -C /repo checkout -- . ; git -C /repo clean -fdq' EXIT
scratch=$(mktemp -d /tmp/seedchk.XXXX)
cp known_findings.txt $scratch/
hit=""
for p in "${props[@]}"; do
  out=$(./bin/sa check -prop $p -tier quick -repo /repo -verif $scratch 2>&1); rc=$?
  if [ $rc -eq 1 ]; then hit="$hit $p"; echo "$out" | grep -A1 " violated " | head -12; fi
  if [ $rc -eq 2 ]; then echo "$p: UNDECIDED"; echo "$out" | grep UNDECIDED | head -3; fi
done
rm -rf $scratch
echo "DETECTED-BY:${hit:- none}"
