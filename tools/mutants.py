#!/usr/bin/env python3
"""Mutation self-test of the analyser.

Each mutant is a small search/replace anchored inside one file of a scratch copy
of the *current* /repo. For every mutant: apply, make sure the tree still
compiles, run the owning check against the scratch copy, expect a VIOLATION
naming the expected rule. Neutral edits must stay silent. A mutant whose
search text no longer occurs is 'skipped', never an alarm.

usage: mutants.py [--only ID[,ID]] [--prop Cxx] [--json out.json] [--jobs N]
"""
import json, os, subprocess, sys, shutil, glob, argparse, tempfile, concurrent.futures as cf

VERIF = os.path.dirname(os.path.dirname(os.path.abspath(__file__)))
REPO = os.environ.get("SA_REPO", "/repo")
ENV = dict(os.environ, PATH="/opt/veriftools/go1.26.8/bin:" + os.environ["PATH"],
           GOFLAGS="-mod=mod", GOPROXY="off", GOSUMDB="off", GOTOOLCHAIN="local", GOWORK="off")

def load():
    out = []
    for f in sorted(glob.glob(os.path.join(VERIF, "sa/mutants/*.json"))):
        for m in json.load(open(f)):
            m["_file"] = os.path.basename(f)
            out.append(m)
    return out

def run_one(m, keep=False):
    tmp = tempfile.mkdtemp(prefix="samut-", dir=os.environ.get("TMPDIR", "/tmp"))
    try:
        repo = os.path.join(tmp, "repo")
        subprocess.run(["rsync", "-a", "--exclude", ".git", REPO + "/", repo + "/"], check=True)
        for ed in m["edits"]:
            path = os.path.join(repo, ed["file"])
            src = open(path).read()
            if src.count(ed["old"]) < 1:
                return dict(id=m["id"], status="skipped", why="search text not found in " + ed["file"])
            src = src.replace(ed["old"], ed["new"], ed.get("count", 1))
            open(path, "w").write(src)
        pkgs = m.get("build", "./...")
        b = subprocess.run(["go", "build", pkgs], cwd=repo, env=ENV, capture_output=True, text=True)
        if b.returncode != 0:
            return dict(id=m["id"], status="nocompile", why=b.stderr[-400:])
        vdir = os.path.join(tmp, "verif")
        os.makedirs(vdir)
        kf = os.path.join(VERIF, "known_findings.txt")
        if os.path.exists(kf):
            shutil.copy(kf, vdir)
        r = subprocess.run([os.environ.get("SA_BIN") or os.path.join(VERIF, "bin/sa"), "check", "-prop", m["prop"], "-tier", "quick", "-repo", repo, "-verif", vdir],
                           capture_output=True, text=True, env=ENV, timeout=600)
        out = r.stdout
        viol = [l for l in out.splitlines() if " violated " in l]
        rules = sorted({l.split()[1] for l in viol})
        if m.get("neutral"):
            ok = r.returncode == 0
            return dict(id=m["id"], status="ok" if ok else "FALSE-ALARM", exit=r.returncode, rules=rules,
                        detail="" if ok else "\n".join(l for l in out.splitlines() if "violated" in l or "UNDECIDED" in l)[:1500])
        exp = m.get("expect")
        hit = r.returncode == 1 and (exp is None or exp in rules)
        return dict(id=m["id"], status="detected" if hit else "MISSED", exit=r.returncode, rules=rules, expect=exp,
                    detail="" if hit else "\n".join(l for l in out.splitlines() if "violated" in l or "UNDECIDED" in l)[:1500])
    finally:
        if not keep:
            shutil.rmtree(tmp, ignore_errors=True)

def main():
    ap = argparse.ArgumentParser()
    ap.add_argument("--only"); ap.add_argument("--prop"); ap.add_argument("--json"); ap.add_argument("--jobs", type=int, default=8)
    a = ap.parse_args()
    ms = load()
    if a.only:
        ids = set(a.only.split(","))
        ms = [m for m in ms if m["id"] in ids]
    if a.prop:
        ms = [m for m in ms if m["prop"] == a.prop]
    res = []
    with cf.ThreadPoolExecutor(max_workers=a.jobs) as ex:
        for r in ex.map(run_one, ms):
            res.append(r)
            print(f'{r["status"]:12s} {r["id"]:40s} {",".join(r.get("rules", []))} {r.get("why","")}')
            if r.get("detail"):
                print("    " + r["detail"].replace("\n", "\n    "))
    counts = {}
    for r in res:
        counts[r["status"]] = counts.get(r["status"], 0) + 1
    print("summary:", counts)
    if a.json:
        json.dump(dict(results=res, summary=counts), open(a.json, "w"), indent=1)
    bad = sum(v for k, v in counts.items() if k in ("MISSED", "FALSE-ALARM"))
    sys.exit(1 if bad else 0)

if __name__ == "__main__":
    main()
