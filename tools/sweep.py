#!/usr/bin/env python3
"""Development aid (no check depends on it): classic single-site mutations of the anchored
packages (bin/mutgen), sampled; each is applied to a scratch copy of the clean tree, must compile
and keep the existing test suites passing ("survivor"); the quick checks of the properties
anchored in the mutated package are then run on the survivors.  Output: one JSON line per mutant.
usage: sweep.py --n 300 --seed 1 --jobs 5 --out /tmp/sweep.jsonl [--only drpcwire/]"""
import argparse, json, os, random, shutil, subprocess, sys, tempfile, collections, concurrent.futures as cf
V = "/verif"
BASE = "/tmp/repo-dev" if os.path.isdir("/tmp/repo-dev") else "/repo"
ENV = dict(os.environ, PATH="/opt/veriftools/go1.26.8/bin:" + os.environ["PATH"], GOFLAGS="-mod=mod", GOPROXY="off",
           GOSUMDB="off", GOTOOLCHAIN="local", GOWORK="off")
DIRS = "drpcstream drpcwire drpcmanager drpcconn drpcserver drpcmux drpchttp drpcpool drpcmigrate drpcsignal drpcctx drpcmetadata drpcerr cmd/protoc-gen-go-drpc".split()
PROPS = {}
for l in open(V + "/properties.jsonl"):
    p = json.loads(l)
    for f in p["anchors"]["files"]:
        PROPS.setdefault(os.path.dirname(f), set()).add(p["id"])
SUBMODS = {"drpchttp": ["internal/grpccompat", "internal/twirpcompat", "internal/integration"],
           "cmd/protoc-gen-go-drpc": []}
DEFAULT_SUB = ["internal/integration", "internal/backcompat"]

def run(cmd, cwd, timeout):
    try:
        r = subprocess.run(cmd, cwd=cwd, env=ENV, capture_output=True, text=True, timeout=timeout)
        return r.returncode, r.stdout + r.stderr
    except subprocess.TimeoutExpired:
        return 124, "timeout"

def one(m):
    tmp = tempfile.mkdtemp(prefix="sw.", dir="/tmp")
    res = dict(m)
    try:
        repo = tmp + "/repo"
        subprocess.run(["rsync", "-a", "--exclude", ".git", BASE + "/", repo + "/"], check=True)
        p = os.path.join(repo, m["file"])
        src = open(p, "rb").read()
        assert src[m["off"]:m["end"]].decode() == m["old"]
        open(p, "wb").write(src[:m["off"]] + m["new"].encode() + src[m["end"]:])
        rc, out = run(["go", "build", "./..."], repo, 300)
        if rc != 0:
            res["status"] = "nocompile"; return res
        rc, out = run(["go", "vet", "./" + os.path.dirname(m["file"])], repo, 300)
        if rc != 0:
            res["status"] = "novet"; return res
        pkg = "./" + os.path.dirname(m["file"]) + "/..."
        rc, out = run(["go", "test", "-count=1", "-timeout", "120s", pkg], repo, 200)
        if rc != 0:
            res["status"] = "killed-local"; return res
        rc, out = run(["go", "test", "-count=1", "-timeout", "240s", "./..."], repo, 400)
        if rc != 0:
            res["status"] = "killed-main"; return res
        for sm in SUBMODS.get(os.path.dirname(m["file"]), DEFAULT_SUB):
            rc, out = run(["go", "test", "-count=1", "-timeout", "240s", "./..."], os.path.join(repo, sm), 400)
            if rc != 0:
                fails = [l for l in out.splitlines() if l.startswith("--- FAIL")]
                if len(fails) == 1 and "TestCancelRepeatedPooled" in fails[0]:
                    continue
                res["status"] = "killed-" + sm.split("/")[-1]; return res
        # survivor: run the anchored properties' checks
        vd = tmp + "/v"; os.makedirs(vd); shutil.copy(V + "/known_findings.txt", vd)
        hits, rules = [], []
        for prop in sorted(PROPS.get(os.path.dirname(m["file"]), [])):
            r = subprocess.run([V + "/bin/sa", "check", "-prop", prop, "-tier", "quick", "-repo", repo, "-verif", vd], env=ENV, capture_output=True, text=True)
            if r.returncode != 0:
                hits.append(prop + ("?" if r.returncode == 2 else ""))
                for l in r.stdout.splitlines():
                    if " violated " in l:
                        rules.append(l.split()[1])
                    if l.startswith("UNDECIDED"):
                        rules.append("UNDECIDED:" + l[:160])
        res["status"] = "detected" if hits else "SILENT"
        res["props"] = hits; res["rules"] = sorted(set(rules))[:12]
        return res
    except Exception as e:
        res["status"] = "error:" + str(e)[:200]; return res
    finally:
        shutil.rmtree(tmp, ignore_errors=True)

def main():
    ap = argparse.ArgumentParser()
    ap.add_argument("--n", type=int, default=200); ap.add_argument("--seed", type=int, default=1)
    ap.add_argument("--jobs", type=int, default=4); ap.add_argument("--out", default="/tmp/sweep.jsonl")
    ap.add_argument("--only", default=""); ap.add_argument("--ops", default=""); ap.add_argument("--exclude", default="")
    a = ap.parse_args()
    r = subprocess.run([V + "/bin/mutgen", BASE] + DIRS, capture_output=True, text=True, check=True)
    muts = json.loads(r.stdout)
    if a.only: muts = [m for m in muts if m["file"].startswith(a.only)]
    if a.exclude: muts = [m for m in muts if not any(m["file"].startswith(x) for x in a.exclude.split(","))]
    if a.ops: muts = [m for m in muts if m["op"] in a.ops.split(",")]
    done = set()
    if os.path.exists(a.out):
        for l in open(a.out):
            d = json.loads(l); done.add((d["file"], d["off"], d["op"]))
    rnd = random.Random(a.seed); rnd.shuffle(muts)
    muts = [m for m in muts[:a.n] if (m["file"], m["off"], m["op"]) not in done]
    print(len(muts), "mutants to run", flush=True)
    cnt = collections.Counter()
    with cf.ThreadPoolExecutor(a.jobs) as ex, open(a.out, "a") as out:
        for res in ex.map(one, muts):
            cnt[res["status"].split(":")[0]] += 1
            out.write(json.dumps(res) + "\n"); out.flush()
            print(res["status"], res["file"], res["line"], res["op"], repr(res["old"][:50]), "->", repr(res["new"][:30]), res.get("props", ""), flush=True)
    print(dict(cnt))
main()
