#!/usr/bin/env python3
"""Re-run the checks on the test-surviving, previously silent mutants of a sweep (no tests are re-run).
usage: sweep_recheck.py /tmp/sweep.jsonl [--all-props]"""
import json, sys, os, subprocess, tempfile, shutil, concurrent.futures as cf
sys.argv.append("")
V = "/verif"; BASE = "/tmp/repo-dev"
ENV = dict(os.environ, PATH="/opt/veriftools/go1.26.8/bin:" + os.environ["PATH"], GOFLAGS="-mod=mod", GOPROXY="off", GOSUMDB="off", GOTOOLCHAIN="local", GOWORK="off")
PROPS = {}
for l in open(V + "/properties.jsonl"):
    p = json.loads(l)
    for f in p["anchors"]["files"]:
        PROPS.setdefault(os.path.dirname(f), set()).add(p["id"])
allp = sorted({x for s in PROPS.values() for x in s})
def one(m):
    tmp = tempfile.mkdtemp(prefix="swr.", dir="/tmp")
    try:
        repo = tmp + "/repo"
        subprocess.run(["rsync", "-a", "--exclude", ".git", BASE + "/", repo + "/"], check=True)
        p = os.path.join(repo, m["file"]); src = open(p, "rb").read()
        open(p, "wb").write(src[:m["off"]] + m["new"].encode() + src[m["end"]:])
        vd = tmp + "/v"; os.makedirs(vd); shutil.copy(V + "/known_findings.txt", vd)
        hits, rules = [], []
        props = allp if "--all-props" in sys.argv else sorted(PROPS.get(os.path.dirname(m["file"]), []))
        for prop in props:
            r = subprocess.run([V + "/bin/sa", "check", "-prop", prop, "-tier", "quick", "-repo", repo, "-verif", vd], env=ENV, capture_output=True, text=True)
            if r.returncode != 0:
                hits.append(prop + ("?" if r.returncode == 2 else ""))
                rules += [l.split()[1] for l in r.stdout.splitlines() if " violated " in l]
        return m, hits, sorted(set(rules))
    finally:
        shutil.rmtree(tmp, ignore_errors=True)
ms = [json.loads(l) for l in open(sys.argv[1])]
ms = [m for m in ms if m["status"] == "SILENT"]
still = 0
with cf.ThreadPoolExecutor(5) as ex:
    for m, hits, rules in ex.map(one, ms):
        st = "now-detected" if hits else "STILL-SILENT"
        still += not hits
        print(st, m["file"], m["line"], m["func"], m["op"], repr(m["old"][:60]), "->", repr(m["new"][:20]), hits, rules[:4], flush=True)
print("silent survivors:", len(ms), "still silent:", still)
