#!/usr/bin/env python3
"""Re-run every registered quick check against every adopted seeded change and record which
properties/rules detect it (meta.json: detected_by_*). Applies each patch to /repo and undoes it."""
import json, glob, os, subprocess, sys
V = "/verif"
rows = []
for d in sorted(glob.glob(V + "/seeded/*/")):
    patch = d + "patch.diff"
    meta_p = d + "meta.json"
    if not os.path.exists(patch) or not os.path.exists(meta_p):
        continue
    chk = subprocess.run([V + "/tools/seed_check.sh", patch], capture_output=True, text=True).stdout
    det = [l for l in chk.splitlines() if l.startswith("DETECTED-BY:")]
    detected = [x for x in (det[0].split(":", 1)[1].split() if det else []) if x != "none"]
    rules = sorted({l.split()[1] for l in chk.splitlines() if " violated " in l})
    meta = json.load(open(meta_p))
    meta["detected_by_properties"] = detected
    meta["detected_by_rules"] = rules
    meta["own_property_check_detects"] = meta["property"] in detected
    json.dump(meta, open(meta_p, "w"), indent=1)
    rows.append((meta["id"], meta["property"], detected, rules))
    print(meta["id"], meta["property"], "->", ",".join(detected) or "NONE", " ".join(rules), flush=True)
missing = [r for r in rows if r[1] not in r[2]]
print("seeds:", len(rows), "detected by own property's check:", len(rows) - len(missing), "not:", [m[0] for m in missing])
