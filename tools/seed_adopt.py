#!/usr/bin/env python3
"""Adopt a seeded change produced by a sub-agent after confirming it here.
usage: seed_adopt.py <src-dir> <id> <property> <demo-pkg-dir> "<needs>" 
Runs tools/seed_verify.sh (scratch worktree) and tools/seed_check.sh (apply to /repo, run all
quick checks, undo) and, if confirmed, stores /verif/seeded/<id>/{patch.diff,demo,README.md,meta.json}.
"""
import sys, os, subprocess, shutil, json, glob, datetime
src, sid, prop, pkgdir, needs = sys.argv[1:6]
pat = sys.argv[6] if len(sys.argv) > 6 else "*_test.go"
V = "/verif"
ver = subprocess.run([V + "/tools/seed_verify.sh", src, pkgdir, "180s", pat], capture_output=True, text=True).stdout
print(ver[-600:])
confirmed = "RESULT confirmed" in ver
chk = subprocess.run([V + "/tools/seed_check.sh", src + "/patch.diff"], capture_output=True, text=True).stdout
det = [l for l in chk.splitlines() if l.startswith("DETECTED-BY:")]
detected = det[0].split(":", 1)[1].split() if det else []
detected = [d for d in detected if d != "none"]
rules = sorted({l.split()[1] for l in chk.splitlines() if " violated " in l})
print("detected by:", detected, rules)
if not confirmed:
    print("NOT adopted (not confirmed)")
    sys.exit(1)
dst = os.path.join(V, "seeded", sid)
os.makedirs(dst, exist_ok=True)
shutil.copy(src + "/patch.diff", dst)
for f in glob.glob(src + "/" + pat) + glob.glob(src + "/README.md"):
    shutil.copy(f, dst)
for f in glob.glob(src + "/*/" + pat):
    sub = os.path.join(dst, os.path.basename(os.path.dirname(f)))
    os.makedirs(sub, exist_ok=True)
    shutil.copy(f, sub)
meta = dict(id=sid, property=prop, breaks=prop, demo_package_dir=pkgdir, needs_to_manifest=needs,
    confirmed=dict(date=str(datetime.date.today()), how="tools/seed_verify.sh: scratch worktree of /repo HEAD; patch applied; go build ./...; go test ./... in main module and internal/{integration,backcompat,grpccompat,twirpcompat}: pass; demo test(s) fail with the patch and pass after reverting it",
                   verify_output=[l for l in ver.splitlines() if l.startswith(("existing suite", "demo with", "demo without", "RESULT"))]),
    checks_run="tools/seed_check.sh: git -C /repo apply patch.diff; every registered quick check; git -C /repo checkout -- .",
    detected_by_properties=detected, detected_by_rules=rules)
json.dump(meta, open(os.path.join(dst, "meta.json"), "w"), indent=1)
print("adopted", dst)
