#!/bin/bash
# usage: tools/patch_check.sh <diff> [prop ...]
# Applies a diff to a scratch copy of the clean dev worktree (/tmp/repo-dev, or /repo if absent), checks that it
# compiles, and runs the quick checks (all, or the listed properties) against the copy in parallel.
# Prints "ALARM <prop>" lines with the violated/undecided obligations, then "RESULT silent|alarm|nocompile".
set -u
diff=$(readlink -f "$1"); shift
cd /verif
SA=${SA_BIN:-./bin/sa}
base=/tmp/repo-dev; [ -d $base ] || base=/repo
props=("$@"); if [ ${#props[@]} -eq 0 ]; then props=($($SA list | grep -o '^C[0-9]*')); fi
tmp=$(mktemp -d /tmp/pchk.XXXX)
rsync -a --exclude .git $base/ $tmp/repo/
(cd $tmp/repo && patch -p1 -s < $diff) || { echo "RESULT patch-does-not-apply"; rm -rf $tmp; exit 2; }
export PATH=/opt/veriftools/go1.26.8/bin:$PATH GOFLAGS=-mod=mod GOPROXY=off GOSUMDB=off GOTOOLCHAIN=local GOWORK=off
(cd $tmp/repo && go build ./... 2>$tmp/build.err) || { echo "RESULT nocompile: $(head -3 $tmp/build.err | tr '\n' ' ')"; rm -rf $tmp; exit 2; }
mkdir -p $tmp/v; cp known_findings.txt $tmp/v/
for p in "${props[@]}"; do
  ( $SA check -prop $p -tier quick -repo $tmp/repo -verif $tmp/v > $tmp/$p.log 2>&1; echo $? > $tmp/$p.rc ) &
  while [ $(jobs -r | wc -l) -ge 10 ]; do sleep 0.2; done
done
wait
alarm=0
for p in "${props[@]}"; do
  rc=$(cat $tmp/$p.rc)
  if [ "$rc" != "0" ]; then alarm=1; echo "ALARM $p rc=$rc"; grep -E " violated |UNDECIDED" -A1 $tmp/$p.log | cut -c1-260 | head -8; fi
done
rm -rf $tmp
[ $alarm = 0 ] && echo "RESULT silent" || echo "RESULT alarm"
