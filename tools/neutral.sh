#!/bin/bash
# Runs every registered quick check against each behaviour-preserving refactoring in sa/neutral/*.diff
# (produced by independent sub-agents; each passes the repository's test-suite). Every one must stay silent.
# NEUTRAL_PROPS="C03 C04" restricts the run to some properties; SA_BIN selects the analyser binary.
cd /verif
bad=0; n=0
for f in sa/neutral/*.diff; do
  n=$((n+1))
  r=$(tools/patch_check.sh $f ${NEUTRAL_PROPS:-} 2>&1)
  if echo "$r" | grep -q "RESULT silent"; then echo "silent   $(basename $f)"; else bad=$((bad+1)); echo "ALARM    $(basename $f)"; echo "$r" | head -8 | sed 's/^/    /'; fi
done
echo "neutral refactorings: $n, alarms: $bad"
[ $bad = 0 ]
