#!/bin/bash
# usage: tools/seed_verify.sh <seed-dir> <demo-pkg-dir-relative-to-repo> [timeout]
# Confirms a seeded change: applies, builds, existing suite passes, demo fails with it and passes without it.
set -u
sd=$1; pkgdir=$2; to=${3:-120s}; pat=${4:-*_test.go}
export PATH=/opt/veriftools/go1.26.8/bin:$PATH GOFLAGS=-mod=mod GOPROXY=off GOSUMDB=off GOTOOLCHAIN=local GOWORK=off
wt=$(mktemp -d /tmp/sv.XXXX); rmdir $wt
git -C /repo worktree add --detach -q $wt HEAD || exit 2
trap 'git -C /repo worktree remove --force '$wt' 2>/dev/null; rm -rf '$wt EXIT
cd $wt
git apply $sd/patch.diff || { echo "RESULT patch-does-not-apply"; exit 1; }
go build ./... || { echo "RESULT nocompile"; exit 1; }
suite_ok=1
( go test -count=1 ./... >/tmp/sv.main.$$ 2>&1 ) || { suite_ok=0; grep -E "^(---|FAIL|ok)" /tmp/sv.main.$$ | grep -v "^ok" | head; }
for m in internal/integration internal/backcompat internal/grpccompat internal/twirpcompat; do
  ( cd $m && go test -count=1 ./... >/tmp/sv.sub.$$ 2>&1 ) || { if grep -q "FAIL: TestCancelRepeatedPooled" /tmp/sv.sub.$$ && [ $(grep -c "^--- FAIL" /tmp/sv.sub.$$) -eq 1 ]; then echo "(flaky TestCancelRepeatedPooled in $m ignored)"; else suite_ok=0; grep -E "^(--- FAIL|FAIL)" /tmp/sv.sub.$$ | head -5; fi; }
done
echo "existing suite with change: $([ $suite_ok = 1 ] && echo pass || echo FAIL)"
# demo files: top-level ones go to $pkgdir; files delivered in a sub-directory that names a package directory go there
dirs=""
names=""
for f in $(cd $sd && find . -maxdepth 3 -name "$pat" -name '*_test.go' | sed 's#^\./##'); do
  d=$(dirname $f)
  if [ "$d" = "." ] || [ ! -d "$wt/$d" ]; then d=$pkgdir; fi
  cp $sd/$f $wt/$d/
  dirs="$dirs $d"
  names="$names $(grep -ho "^func Test[A-Za-z0-9_]*" $sd/$f | sed 's/func //')"
done
dirs=$(echo $dirs | tr ' ' '\n' | sort -u | tr '\n' ' ')
names=$(echo $names | tr ' ' '|')
run_demo() { local rc=0; for d in $dirs; do ( cd $wt/$d && go test -count=1 -timeout $to -run "^($names)\$" . >>$1 2>&1 ) || rc=1; done; return $rc; }
: > /tmp/sv.demo1.$$; run_demo /tmp/sv.demo1.$$; rc1=$?
echo "demo with change: rc=$rc1 $(grep -E "^(FAIL|ok|---)" /tmp/sv.demo1.$$ | tail -3 | tr '\n' ' ' | cut -c1-200)"
git apply -R $sd/patch.diff
: > /tmp/sv.demo2.$$; run_demo /tmp/sv.demo2.$$; rc2=$?
echo "demo without change: rc=$rc2 $(grep -E "^(FAIL|ok|---)" /tmp/sv.demo2.$$ | tail -2 | tr '\n' ' ' | cut -c1-200)"
rm -f /tmp/sv.*.$$
if [ $suite_ok = 1 ] && [ $rc1 -ne 0 ] && [ $rc2 -eq 0 ]; then echo "RESULT confirmed"; else echo "RESULT NOT-confirmed"; fi
