#!/opt/veriftools/pyvenv/bin/python3
import json, jsonschema, glob, sys
m = json.load(open('/verif/MANIFEST.json'))
jsonschema.validate(m, json.load(open('/root/.vp/MANIFEST.schema.json')))
print('manifest ok: %d checks, %d not_applicable' % (len(m['checks']), len(m.get('not_applicable', []))))
es = json.load(open('/root/.vp/EVIDENCE.schema.json'))
for f in sorted(glob.glob('/verif/evidence/*.json')):
    jsonschema.validate(json.load(open(f)), es)
    print('evidence ok:', f)
